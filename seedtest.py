#!/usr/bin/env python3
"""Evaluate one seeded change against the checks.

  seedtest.py <patch.diff> <demo_test.go> <property-id> [--all] [--tier quick|thorough]

Applies the patch to a scratch worktree of /repo (outside /repo and /verif), confirms that it
compiles, that the repository's own suite still passes, that the demonstration fails with the
change and passes without it, then points the checks at the scratch copy (VERIF_REPO) and reports
which of them print a VIOLATION. The scratch worktree and its build output are removed at the end.
Prints one JSON object.
"""
import json, os, shutil, subprocess, sys, tempfile, time
HOME = os.path.dirname(os.path.abspath(__file__))

def sh(cmd, cwd=None, env=None, timeout=1800):
    e = dict(os.environ); e.update(GOFLAGS="-mod=mod", GOPROXY="off", GOSUMDB="off", GOTOOLCHAIN="local")
    if env: e.update(env)
    p = subprocess.run(cmd, cwd=cwd, env=e, shell=isinstance(cmd, str), stdout=subprocess.PIPE, stderr=subprocess.STDOUT, text=True, timeout=timeout)
    return p.returncode, p.stdout

def main():
    patch, demo, pid = sys.argv[1], sys.argv[2], sys.argv[3]
    run_all = "--all" in sys.argv
    tier = "quick"
    if "--tier" in sys.argv:
        tier = sys.argv[sys.argv.index("--tier") + 1]
    base = tempfile.mkdtemp(prefix="seedeval-", dir="/var/tmp")
    wt = os.path.join(base, "wt")
    out = {"patch": patch, "property": pid, "tier": tier}
    try:
        for attempt in range(8):
            # (several evaluations may run side by side: git serialises worktree changes with a lock file)
            rc, o = sh(["git", "-C", "/repo", "worktree", "add", "--detach", wt, "HEAD"])
            if rc == 0:
                break
            time.sleep(1 + attempt)
        assert rc == 0, o
        # demo on the unchanged tree
        shutil.copy(demo, os.path.join(wt, "zz_seed_demo_test.go"))
        rc, o = sh("go test -vet=off -count=1 -run TestSeedDemo . 2>&1 | tail -15", cwd=wt, timeout=600)
        out["demo_passes_without_change"] = ("FAIL" not in o and "ok" in o)
        os.remove(os.path.join(wt, "zz_seed_demo_test.go"))
        rc, o = sh(["git", "apply", "--3way", os.path.abspath(patch)], cwd=wt)
        if rc != 0:
            rc, o = sh(["git", "apply", os.path.abspath(patch)], cwd=wt)
        out["applies"] = rc == 0
        if rc != 0:
            out["apply_output"] = o[-800:]
            print(json.dumps(out, indent=1)); return
        sh(["git", "reset", "-q"], cwd=wt)
        rc, o = sh("go build ./... && go test -vet=off -count=1 ./... 2>&1 | tail -5", cwd=wt, timeout=900)
        out["suite_passes_with_change"] = (rc == 0 and "FAIL" not in o)
        out["suite_tail"] = o[-300:]
        shutil.copy(demo, os.path.join(wt, "zz_seed_demo_test.go"))
        rc, o = sh("go test -vet=off -count=1 -timeout 300s -run TestSeedDemo . 2>&1 | tail -15", cwd=wt, timeout=900)
        out["demo_fails_with_change"] = ("FAIL" in o or "panic" in o or "timed out" in o)
        out["demo_tail"] = o[-400:]
        if not out["demo_fails_with_change"]:
            # a demonstration of an unsynchronised access only fails under the race detector
            rc, o = sh("go test -race -vet=off -count=1 -timeout 600s -run TestSeedDemo . 2>&1 | tail -15", cwd=wt, timeout=1200)
            if "FAIL" in o or "DATA RACE" in o or "panic" in o:
                out["demo_fails_with_change"] = True
                out["demo_needs_race_detector"] = True
                out["demo_tail"] = o[-400:]
                sh(["git", "stash", "-q"], cwd=wt)
                rc, o = sh("go test -race -vet=off -count=1 -timeout 600s -run TestSeedDemo . 2>&1 | tail -15", cwd=wt, timeout=1200)
                out["demo_passes_without_change"] = ("FAIL" not in o and "ok" in o)
                sh(["git", "stash", "pop", "-q"], cwd=wt)
        os.remove(os.path.join(wt, "zz_seed_demo_test.go"))
        pids = [pid]
        if run_all:
            rc, o = sh(["./check", "--list"], cwd=HOME)
            pids = [pid] + [p for p in o.split() if p != pid]
        det = {}
        for p in pids:
            t0 = time.time()
            rc, o = sh(["./check", p, tier], cwd=HOME, env={"VERIF_REPO": wt, "VERIF_SELFTEST_OUT": os.path.join(base, "out")}, timeout=3600)
            lines = [l for l in o.splitlines() if l.startswith("VIOLATION") or l.startswith("OK ") or "INCONCLUSIVE" in l or "BUILD FAILED" in l]
            msg = [l for l in o.splitlines() if l.startswith("  ")][:3]
            det[p] = {"exit": rc, "lines": lines[:3], "detail": msg, "wall_s": round(time.time() - t0, 1)}
        out["checks"] = det
        out["detected_by"] = [p for p, d in det.items() if d["exit"] == 1]
        print(json.dumps(out, indent=1))
    finally:
        sh(["git", "-C", "/repo", "worktree", "remove", "--force", wt])
        shutil.rmtree(base, ignore_errors=True)
        sh(["git", "-C", "/repo", "worktree", "prune"])

if __name__ == "__main__":
    main()
