// Package av is the abstract value model every oracle meets in: the value a
// Hessian 2.0 stream denotes, independent of Go types and of gohessian.
//
//	AV ::= Null | Bool | Int(i32) | Long(i64) | Double(bits) | String | Binary | Date(ms)
//	     | List{type?, elems} | Map{type?, entries} | Object{class, fields} | Ref -> container
//
// Containers have identity (pointer identity of *V); a Ref node points at the
// container it denotes. Canon() renders the graph so that two values compare
// equal iff they are isomorphic as graphs, map entries compared as a set.
package av

import (
	"fmt"
	"hash/fnv"
	"math"
	"sort"
	"strconv"
	"strings"
)

type Kind uint8

const (
	Null Kind = iota
	Bool
	Int
	Long
	Double
	String
	Binary
	Date
	List
	Map
	Object
	Ref
)

var kindNames = [...]string{"null", "bool", "int", "long", "double", "string", "binary", "date", "list", "map", "object", "ref"}

func (k Kind) String() string { return kindNames[k] }

// Chunk is one wire chunk of a string or binary (annotation only).
type Chunk struct {
	Tag   byte
	Len   int // declared length (characters for strings, octets for binary)
	Start int // offset of the tag octet
	End   int // offset just after the chunk's data
}

// Wire is what the reference decoder records about how a node was written.
type Wire struct {
	Tag      byte
	Start    int
	End      int
	Chunks   []Chunk
	ClassIdx int  // object: class definition index used
	LongForm bool // object: 'O' int form
	TypeRef  bool // list/map: type given as back-reference
	Variable bool // list: variable-length form
	Compact  bool // date: x4b form; list: compact length form
}

type V struct {
	K      Kind
	B      bool
	I      int64  // Int, Long, Date (milliseconds since epoch)
	F      uint64 // Double: IEEE bits
	S      string
	Bin    []byte
	Typed  bool     // List/Map: carries a type string
	Type   string   // List/Map type; Object class name
	Fields []string // Object: field names of its class definition
	Elems  []*V     // List elements; Object field values; Map k0,v0,k1,v1,...
	Target *V       // Ref: the container denoted (nil when unresolvable)
	Ord    int      // container: stream ordinal (-1 unknown); Ref: ordinal written
	Static bool     // projected values: the position is statically typed on the Go side (struct field, element of a typed container)
	Field  bool     // projected values: the node sits directly in a struct field (first occurrence)
	// EmptyMap: a Null that stands for an empty (or nil) map in a statically typed position; another writer
	// (Java for an empty HashMap) sends 'H' 'Z' there, which takes a reference ordinal
	EmptyMap bool
	W      *Wire
}

func NullV() *V             { return &V{K: Null} }
func BoolV(b bool) *V       { return &V{K: Bool, B: b} }
func IntV(i int32) *V       { return &V{K: Int, I: int64(i)} }
func LongV(i int64) *V      { return &V{K: Long, I: i} }
func DoubleV(f float64) *V  { return &V{K: Double, F: math.Float64bits(f)} }
func StringV(s string) *V   { return &V{K: String, S: s} }
func BinaryV(b []byte) *V   { return &V{K: Binary, Bin: b} }
func DateV(ms int64) *V     { return &V{K: Date, I: ms} }
func (v *V) Float() float64 { return math.Float64frombits(v.F) }
func (v *V) IsContainer() bool {
	return v.K == List || v.K == Map || v.K == Object
}

// Resolve follows Ref nodes.
func (v *V) Resolve() *V {
	for v != nil && v.K == Ref {
		v = v.Target
	}
	return v
}

// Options steer what Canon erases.
type Options struct {
	// DoubleNormalize: all NaNs equal, -0 == +0.
	DoubleNormalize bool
	// NullEmptyString: String "" renders as null.
	NullEmptyString bool
	// IgnoreListType / IgnoreMapType erase type strings.
	IgnoreListType bool
	IgnoreMapType  bool
	// EmptyContainerNull: empty list/map (and binary) render as null.
	EmptyContainerNull bool
	// OrderedMaps keeps wire order of map entries (default: sorted as a set).
	OrderedMaps bool
	// IgnoreDateValue renders every date alike (the instant is another check's subject).
	IgnoreDateValue bool
}

type canon struct {
	opt    Options
	labels map[*V]int
	sb     strings.Builder
	// inKey: containers on the way from a map down to the key being rendered for sorting; a
	// key that (through an object) holds the map it belongs to would otherwise never end
	inKey map[*V]bool
	// sortOnly: this rendering is itself a sort key; maps inside it do not tell equal keys apart by their
	// values (that would render every value again at every level of nesting)
	sortOnly bool
}

// Canon renders the graph rooted at v.
func Canon(v *V, opt Options) string {
	c := &canon{opt: opt, labels: map[*V]int{}}
	c.walk(v)
	return c.sb.String()
}

// keyString renders a map key in a fresh label space (used for sorting only).
func keyString(v *V, opt Options, inKey map[*V]bool) string {
	c := &canon{opt: opt, labels: map[*V]int{}, inKey: inKey, sortOnly: true}
	c.walk(v)
	return c.sb.String()
}

func (c *canon) walk(v *V) {
	if v == nil {
		c.sb.WriteString("<nil>")
		return
	}
	if v.K == Ref {
		t := v.Resolve()
		if t == nil {
			fmt.Fprintf(&c.sb, "ref!%d", v.Ord)
			return
		}
		v = t
	}
	switch v.K {
	case Null:
		c.sb.WriteString("N")
	case Bool:
		if v.B {
			c.sb.WriteString("T")
		} else {
			c.sb.WriteString("F")
		}
	case Int:
		c.sb.WriteString("i" + strconv.FormatInt(v.I, 10))
	case Long:
		c.sb.WriteString("l" + strconv.FormatInt(v.I, 10))
	case Double:
		f := v.Float()
		if c.opt.DoubleNormalize {
			if f != f {
				c.sb.WriteString("dNaN")
				return
			}
			if f == 0 {
				c.sb.WriteString("d0")
				return
			}
		}
		c.sb.WriteString("d" + strconv.FormatUint(v.F, 16))
	case String:
		if v.S == "" && c.opt.NullEmptyString {
			c.sb.WriteString("N")
			return
		}
		c.sb.WriteString("s" + strconv.Quote(v.S))
	case Binary:
		if len(v.Bin) == 0 && c.opt.EmptyContainerNull {
			c.sb.WriteString("N")
			return
		}
		fmt.Fprintf(&c.sb, "b%x", v.Bin)
	case Date:
		if c.opt.IgnoreDateValue {
			c.sb.WriteString("t")
			return
		}
		c.sb.WriteString("t" + strconv.FormatInt(v.I, 10))
	case List, Map, Object:
		if len(v.Elems) == 0 && v.K != Object && c.opt.EmptyContainerNull {
			c.sb.WriteString("N")
			return
		}
		if l, ok := c.labels[v]; ok {
			fmt.Fprintf(&c.sb, "@%d", l)
			return
		}
		l := len(c.labels)
		c.labels[v] = l
		switch v.K {
		case List:
			fmt.Fprintf(&c.sb, "#%d[", l)
			if v.Typed && !c.opt.IgnoreListType {
				c.sb.WriteString(strconv.Quote(v.Type) + ":")
			}
			for i, e := range v.Elems {
				if i > 0 {
					c.sb.WriteByte(',')
				}
				c.walk(e)
			}
			c.sb.WriteByte(']')
		case Object:
			fmt.Fprintf(&c.sb, "#%d%s{", l, strconv.Quote(v.Type))
			for i, e := range v.Elems {
				if i > 0 {
					c.sb.WriteByte(',')
				}
				if i < len(v.Fields) {
					c.sb.WriteString(v.Fields[i])
				} else {
					c.sb.WriteString("?")
				}
				c.sb.WriteByte('=')
				c.walk(e)
			}
			if len(v.Fields) > len(v.Elems) {
				fmt.Fprintf(&c.sb, ",missing=%d", len(v.Fields)-len(v.Elems))
			}
			c.sb.WriteByte('}')
		case Map:
			fmt.Fprintf(&c.sb, "#%d<", l)
			if v.Typed && !c.opt.IgnoreMapType {
				c.sb.WriteString(strconv.Quote(v.Type) + ":")
			}
			n := len(v.Elems) / 2
			idx := make([]int, n)
			for i := range idx {
				idx[i] = i
			}
			if !c.opt.OrderedMaps {
				keys := make([]string, n)
				for i := 0; i < n; i++ {
					if c.inKey == nil {
						c.inKey = map[*V]bool{}
					}
					if c.inKey[v] {
						keys[i] = "<enclosing map>"
						continue
					}
					c.inKey[v] = true
					keys[i] = keyString(v.Elems[2*i], c.opt, c.inKey)
					delete(c.inKey, v)
				}
				// keys of equal content (two objects with the same fields as keys) are told apart by their
				// values, rendered for such keys only and not inside a rendering that is itself a sort key
				if !c.sortOnly && !c.inKey[v] {
					dup := map[string]int{}
					for _, k := range keys {
						dup[k]++
					}
					for i := 0; i < n; i++ {
						if dup[keys[i]] > 1 {
							c.inKey[v] = true
							keys[i] += "\x00=>" + keyString(v.Elems[2*i+1], c.opt, c.inKey)
							delete(c.inKey, v)
						}
					}
				}
				sort.SliceStable(idx, func(a, b int) bool { return keys[idx[a]] < keys[idx[b]] })
			}
			for j, i := range idx {
				if j > 0 {
					c.sb.WriteByte(',')
				}
				c.walk(v.Elems[2*i])
				c.sb.WriteString("=>")
				c.walk(v.Elems[2*i+1])
			}
			if len(v.Elems)%2 == 1 {
				c.sb.WriteString(",dangling-key")
			}
			c.sb.WriteByte('>')
		}
	}
}

// Hash is a 64-bit FNV-1a of a string; identity for distinct counting.
func Hash(s string) uint64 {
	h := fnv.New64a()
	h.Write([]byte(s))
	return h.Sum64()
}

// Short renders v for messages, truncated.
func Short(v *V, max int) string {
	s := Canon(v, Options{OrderedMaps: true})
	if len(s) > max {
		return s[:max] + fmt.Sprintf("...(%d more)", len(s)-max)
	}
	return s
}

// Walk visits every node reachable from v once (pre-order), not following Refs.
func Walk(v *V, f func(*V)) {
	seen := map[*V]bool{}
	var rec func(*V)
	rec = func(x *V) {
		if x == nil || seen[x] {
			return
		}
		if x.IsContainer() {
			seen[x] = true
		}
		f(x)
		for _, e := range x.Elems {
			rec(e)
		}
	}
	rec(v)
}
