// Package rec accumulates what a check actually covered (evaluations, distinct
// non-trivial cases, label histogram, samples, exclusions) and writes it as a
// shard file that the driver merges into /verif/evidence/<id>.json. It also
// holds the black-box recorder: the case about to be executed is written to a
// file so that a process death (fatal error, watchdog kill) still names its case.
package rec

import (
	"encoding/binary"
	"encoding/json"
	"fmt"
	"os"
	"path/filepath"
	"sort"
	"strconv"
	"sync"
	"time"
)

type Rec struct {
	mu        sync.Mutex
	Prop      string
	evals     int64
	hashes    map[uint64]struct{}
	exact     int64
	labels    map[string]int64
	samples   []interface{}
	sampleN   int64
	excluded  map[string]int64
	known     []string
	notes     map[string]interface{}
	start     time.Time
	maxSample int
	cur       *os.File
}

var (
	regMu sync.Mutex
	reg   = map[string]*Rec{}
)

// For returns the recorder of a property (one per process and property).
func For(prop string) *Rec {
	regMu.Lock()
	defer regMu.Unlock()
	if r, ok := reg[prop]; ok {
		return r
	}
	r := &Rec{Prop: prop, hashes: map[uint64]struct{}{}, labels: map[string]int64{}, excluded: map[string]int64{}, notes: map[string]interface{}{}, start: time.Now(), maxSample: 8}
	reg[prop] = r
	return r
}

func (r *Rec) Eval() { r.mu.Lock(); r.evals++; r.mu.Unlock() }

func (r *Rec) EvalN(n int64) { r.mu.Lock(); r.evals += n; r.mu.Unlock() }

// NonTrivial registers the identity of a case that is non-trivial by the
// property's stated rule.
func (r *Rec) NonTrivial(h uint64) {
	r.mu.Lock()
	r.hashes[h] = struct{}{}
	r.mu.Unlock()
}

// NonTrivialExact adds n cases known to be pairwise distinct by construction
// (exhaustive enumeration of distinct words).
func (r *Rec) NonTrivialExact(n int64) { r.mu.Lock(); r.exact += n; r.mu.Unlock() }

func (r *Rec) Label(s string) { r.mu.Lock(); r.labels[s]++; r.mu.Unlock() }

func (r *Rec) LabelN(s string, n int64) { r.mu.Lock(); r.labels[s] += n; r.mu.Unlock() }

func (r *Rec) Labels(m map[string]int) {
	r.mu.Lock()
	for k, v := range m {
		r.labels[k] += int64(v)
	}
	r.mu.Unlock()
}

func (r *Rec) Excluded(kind string, n int) {
	if n == 0 {
		return
	}
	r.mu.Lock()
	r.excluded[kind] += int64(n)
	r.mu.Unlock()
}

func (r *Rec) ExcludedMap(m map[string]int) {
	for k, v := range m {
		r.Excluded(k, v)
	}
}

// Known records that an open known finding's witness still fails.
func (r *Rec) Known(line string) {
	r.mu.Lock()
	r.known = append(r.known, line)
	r.mu.Unlock()
}

func (r *Rec) Note(k string, v interface{}) { r.mu.Lock(); r.notes[k] = v; r.mu.Unlock() }

// Sample keeps a few of the cases seen: the first three, then every case whose
// index is a power of two (so long runs still show late cases).
func (r *Rec) Sample(f func() interface{}) {
	r.mu.Lock()
	defer r.mu.Unlock()
	r.sampleN++
	n := r.sampleN
	if n <= 3 || (n&(n-1)) == 0 {
		s := f()
		if len(r.samples) < r.maxSample {
			r.samples = append(r.samples, s)
		} else {
			r.samples[3+int(n)%(r.maxSample-3)] = s
		}
	}
}

// Current is the black-box recorder: overwrite the "current case" file.
func (r *Rec) Current(desc string) {
	dir := os.Getenv("VERIF_OUT")
	if dir == "" {
		return
	}
	r.mu.Lock()
	defer r.mu.Unlock()
	if r.cur == nil {
		f, err := os.OpenFile(filepath.Join(dir, r.Prop+".current"), os.O_CREATE|os.O_RDWR|os.O_TRUNC, 0o644)
		if err != nil {
			return
		}
		r.cur = f
	}
	b := []byte(desc)
	if len(b) > 1<<16 {
		b = b[:1<<16]
	}
	var hdr [8]byte
	binary.LittleEndian.PutUint64(hdr[:], uint64(len(b)))
	r.cur.WriteAt(hdr[:], 0)
	r.cur.WriteAt(b, 8)
}

type shardFile struct {
	Prop      string                 `json:"property_id"`
	Shard     string                 `json:"shard"`
	Evals     int64                  `json:"evaluations"`
	Exact     int64                  `json:"distinct_exact"`
	NHashes   int                    `json:"distinct_hashed"`
	HashFile  string                 `json:"hash_file"`
	Labels    map[string]int64       `json:"labels"`
	Samples   []interface{}          `json:"samples"`
	Excluded  map[string]int64       `json:"excluded"`
	Known     []string               `json:"known_findings"`
	Notes     map[string]interface{} `json:"notes"`
	WallS     float64                `json:"wall_s"`
	LabelKeys []string               `json:"-"`
}

// FlushAll writes one shard file per property touched by this process.
func FlushAll() {
	dir := os.Getenv("VERIF_OUT")
	if dir == "" {
		return
	}
	shard := os.Getenv("VERIF_SHARD")
	if shard == "" {
		shard = "0"
	}
	regMu.Lock()
	defer regMu.Unlock()
	for _, r := range reg {
		r.mu.Lock()
		hf := filepath.Join(dir, fmt.Sprintf("%s.%s.hashes", r.Prop, shard))
		buf := make([]byte, 0, 8*len(r.hashes))
		keys := make([]uint64, 0, len(r.hashes))
		for h := range r.hashes {
			keys = append(keys, h)
		}
		sort.Slice(keys, func(i, j int) bool { return keys[i] < keys[j] })
		for _, h := range keys {
			buf = binary.LittleEndian.AppendUint64(buf, h)
		}
		os.WriteFile(hf, buf, 0o644)
		sf := shardFile{Prop: r.Prop, Shard: shard, Evals: r.evals, Exact: r.exact, NHashes: len(r.hashes), HashFile: hf,
			Labels: r.labels, Samples: r.samples, Excluded: r.excluded, Known: r.known, Notes: r.notes, WallS: time.Since(r.start).Seconds()}
		b, _ := json.Marshal(sf)
		os.WriteFile(filepath.Join(dir, fmt.Sprintf("%s.%s.shard.json", r.Prop, shard)), b, 0o644)
		r.mu.Unlock()
	}
}

// Failure is the replay descriptor written when a case fails.
type Failure struct {
	Prop    string      `json:"property"`
	Test    string      `json:"test"`
	Kind    string      `json:"kind"` // rapid | direct
	Message string      `json:"message"`
	Case    interface{} `json:"case"`
	Seed    string      `json:"seed,omitempty"`
}

// WriteFailure overwrites $VERIF_OUT/<prop>.fail.json (rapid re-runs the
// minimal case last, so what is left behind is the shrunk one).
func WriteFailure(f Failure) {
	dir := os.Getenv("VERIF_OUT")
	if dir == "" {
		return
	}
	f.Seed = os.Getenv("VERIF_SEED")
	b, _ := json.MarshalIndent(f, "", " ")
	os.WriteFile(filepath.Join(dir, f.Prop+".fail.json"), b, 0o644)
}

// EnvInt reads an integer environment variable.
func EnvInt(name string, def int) int {
	if s := os.Getenv(name); s != "" {
		if n, err := strconv.Atoi(s); err == nil {
			return n
		}
	}
	return def
}

func Thorough() bool { return os.Getenv("VERIF_TIER") == "thorough" }
