// Package vcmp is the normalising structural comparator between the Go value
// that was encoded and the Go value the decoder returned. It forgives exactly
// the normalisations property C01 names and nothing else:
//
//   - nil and empty containers are identified (slices, maps, byte slices);
//   - an absent string equals the empty string;
//   - negative zero equals zero; NaN equals NaN;
//   - a timestamp is compared as an instant at millisecond resolution
//     (|d| < 1 ms when the original had sub-millisecond digits);
//   - a top-level struct T or *T comes back as *T;
//   - a value in an untyped position (top level, element of an untyped list,
//     entry of an untyped map) comes back in its canonical wire type
//     (int32, int64, float64, ...), an unregistered/untyped container as
//     []interface{} / map[interface{}]interface{}.
//
// Pointer structure: the comparison walks both graphs at once and keeps a
// bijection between struct pointers; two paths must alias in the result exactly
// when they did in the original.
package vcmp

import (
	"bytes"
	"fmt"
	"math"
	"reflect"
	"time"
	"unsafe"

	"verif/harness/zoo"
)

type cmp struct {
	// pairs of (original, result) lists / maps under comparison: a decoded list may contain itself
	open    map[[3]uintptr]bool
	nameMap map[string]string
	w2g     map[unsafe.Pointer]unsafe.Pointer
	g2w     map[unsafe.Pointer]unsafe.Pointer
	// Aliasing enforces the bijection (else it is only used to cut cycles).
	aliasing bool
}

type mismatch struct {
	path string
	msg  string
}

func (m *mismatch) Error() string { return "at " + m.path + ": " + m.msg }

func fail(path, f string, a ...interface{}) error {
	if path == "" {
		path = "<root>"
	}
	return &mismatch{path, fmt.Sprintf(f, a...)}
}

// Equal compares the original value with what the decoder returned for it.
func Equal(want, got interface{}, nameMap map[string]string) error {
	c := &cmp{nameMap: nameMap, w2g: map[unsafe.Pointer]unsafe.Pointer{}, g2w: map[unsafe.Pointer]unsafe.Pointer{}, aliasing: true}
	return c.dyn("", reflect.ValueOf(want), reflect.ValueOf(got))
}

// Session compares several (original, result) pairs with one pointer bijection,
// so aliasing across the values of one stream is checked too.
type Session struct{ c *cmp }

func NewSession(nameMap map[string]string) *Session {
	return &Session{&cmp{nameMap: nameMap, w2g: map[unsafe.Pointer]unsafe.Pointer{}, g2w: map[unsafe.Pointer]unsafe.Pointer{}, aliasing: true}}
}

func (s *Session) Equal(want, got interface{}) error {
	return s.c.dyn("", reflect.ValueOf(want), reflect.ValueOf(got))
}

// EqualValues compares two decoder results (same static expectations on both
// sides): used by differential checks (C03, C11, C12).
func EqualValues(a, b interface{}) error {
	c := &cmp{w2g: map[unsafe.Pointer]unsafe.Pointer{}, g2w: map[unsafe.Pointer]unsafe.Pointer{}, aliasing: true}
	av, bv := reflect.ValueOf(a), reflect.ValueOf(b)
	if !av.IsValid() || !bv.IsValid() {
		if av.IsValid() != bv.IsValid() && !emptyString(av) && !emptyString(bv) {
			return fail("", "one side nil: %v vs %v", a, b)
		}
		return nil
	}
	if av.Type() != bv.Type() {
		return fail("", "dynamic types differ: %v vs %v", av.Type(), bv.Type())
	}
	return c.static("", av, bv, true)
}

func isNilish(v reflect.Value) bool {
	if !v.IsValid() {
		return true
	}
	switch v.Kind() {
	case reflect.Ptr, reflect.Interface:
		return v.IsNil()
	case reflect.Slice, reflect.Map:
		return v.Len() == 0
	case reflect.String:
		return v.Len() == 0
	}
	return false
}

func eqFloat(a, b float64) bool {
	if a != a || b != b {
		return a != a && b != b
	}
	return a == b
}

func eqTime(w, g time.Time) bool {
	if w.IsZero() {
		return g.IsZero()
	}
	if w.Nanosecond()%1e6 == 0 {
		return g.Equal(w)
	}
	d := g.Sub(w)
	if d < 0 {
		d = -d
	}
	// Sub saturates; use milli arithmetic as well
	return d < time.Millisecond && math.Abs(float64(g.UnixMilli()-w.UnixMilli())) <= 1
}

func (c *cmp) bij(path string, w, g unsafe.Pointer) (seen bool, err error) {
	if x, ok := c.w2g[w]; ok {
		if x != g {
			if c.aliasing {
				return true, fail(path, "aliasing differs: original object already matched another result object")
			}
		}
		if y, ok := c.g2w[g]; ok && y == w {
			return true, nil
		}
	}
	if y, ok := c.g2w[g]; ok && y != w {
		if c.aliasing {
			return true, fail(path, "aliasing differs: two distinct original objects decode to one shared object")
		}
		return true, nil
	}
	c.w2g[w] = g
	c.g2w[g] = w
	return false, nil
}

// dyn: wv is the original at an untyped position, gv the dynamic result value.
func (c *cmp) dyn(path string, wv, gv reflect.Value) error {
	for wv.IsValid() && wv.Kind() == reflect.Interface {
		if wv.IsNil() {
			wv = reflect.Value{}
			break
		}
		wv = wv.Elem()
	}
	for gv.IsValid() && gv.Kind() == reflect.Interface {
		if gv.IsNil() {
			gv = reflect.Value{}
			break
		}
		gv = gv.Elem()
	}
	if !wv.IsValid() || (wv.Kind() == reflect.Ptr && wv.IsNil()) {
		if !isNilish(gv) {
			return fail(path, "want nil, got %v (%v)", gv.Type(), short(gv))
		}
		return nil
	}
	switch wv.Kind() {
	case reflect.Bool:
		if !gv.IsValid() || gv.Kind() != reflect.Bool || gv.Type() != reflect.TypeOf(true) || gv.Bool() != wv.Bool() {
			return fail(path, "want bool %v, got %s", wv.Bool(), short(gv))
		}
	case reflect.Int8, reflect.Int16, reflect.Int32, reflect.Int:
		return wantCanon(path, int32(wv.Int()), gv)
	case reflect.Uint8, reflect.Uint16:
		return wantCanon(path, int32(wv.Uint()), gv)
	case reflect.Int64:
		return wantCanon(path, wv.Int(), gv)
	case reflect.Uint, reflect.Uint32, reflect.Uint64:
		return wantCanon(path, int64(wv.Uint()), gv)
	case reflect.Float32, reflect.Float64:
		if !gv.IsValid() || gv.Type() != reflect.TypeOf(float64(0)) || !eqFloat(wv.Float(), gv.Float()) {
			return fail(path, "want float64 %v, got %s", wv.Float(), short(gv))
		}
	case reflect.String:
		if wv.Len() == 0 && !gv.IsValid() {
			return nil
		}
		if !gv.IsValid() || gv.Type() != reflect.TypeOf("") || gv.String() != wv.String() {
			return fail(path, "want string %q, got %s", clip(wv.String()), short(gv))
		}
	case reflect.Ptr:
		if wv.Elem().Kind() != reflect.Struct {
			return fail(path, "comparator: unsupported pointer %v", wv.Type())
		}
		if wv.Elem().Type() == zoo.TimeType {
			return c.dyn(path, wv.Elem(), gv)
		}
		if !gv.IsValid() || gv.Type() != wv.Type() || gv.IsNil() {
			return fail(path, "want %v, got %s", wv.Type(), short(gv))
		}
		seen, err := c.bij(path, wv.UnsafePointer(), gv.UnsafePointer())
		if err != nil || seen {
			return err
		}
		return c.static(path, wv.Elem(), gv.Elem(), false)
	case reflect.Struct:
		if wv.Type() == zoo.TimeType {
			w := wv.Interface().(time.Time)
			if w.IsZero() && !gv.IsValid() {
				return nil
			}
			g, ok := ifaceOf(gv).(time.Time)
			if !ok || !eqTime(w, g) {
				return fail(path, "want time %v, got %s", w.UTC().Format(time.RFC3339Nano), short(gv))
			}
			return nil
		}
		if !gv.IsValid() || gv.Type() != reflect.PtrTo(wv.Type()) || gv.IsNil() {
			return fail(path, "want *%v, got %s", wv.Type(), short(gv))
		}
		return c.static(path, wv, gv.Elem(), false)
	case reflect.Slice:
		if wv.Type() == zoo.BytesType {
			if wv.Len() == 0 && isNilish(gv) {
				return nil
			}
			g, ok := ifaceOf(gv).([]byte)
			if !ok || !bytes.Equal(g, wv.Bytes()) {
				return fail(path, "want []byte(%d), got %s", wv.Len(), short(gv))
			}
			return nil
		}
		if wv.Len() == 0 {
			if isNilish(gv) {
				return nil
			}
			return fail(path, "want empty list, got %s", short(gv))
		}
		if wire, typed := zoo.ListType(wv.Type(), c.nameMap); typed {
			if gv.IsValid() && gv.Type() != wv.Type() && gv.Kind() == reflect.Slice && gv.Len() == wv.Len() {
				// several Go slice types can share one list type name ([]T / []*T, []int16 / []int32);
				// at an untyped position the result then has whichever of them the type map holds
				if other, ok := c.nameMap[zoo.TypeName(gv.Type())]; ok && other == wire {
					for i := 0; i < wv.Len(); i++ {
						if err := c.dynElem(fmt.Sprintf("%s[%d]", path, i), wv.Index(i), gv.Index(i)); err != nil {
							return err
						}
					}
					return nil
				}
			}
			if !gv.IsValid() || gv.Type() != wv.Type() {
				return fail(path, "want typed list %v, got %s", wv.Type(), short(gv))
			}
			return c.static(path, wv, gv, false)
		}
		if !gv.IsValid() || gv.Type() != reflect.TypeOf([]interface{}{}) {
			return fail(path, "want []interface{} (untyped list of %v), got %s", wv.Type(), short(gv))
		}
		if gv.Len() != wv.Len() {
			return fail(path, "list length: want %d, got %d", wv.Len(), gv.Len())
		}
		for i := 0; i < wv.Len(); i++ {
			if err := c.dyn(fmt.Sprintf("%s[%d]", path, i), wv.Index(i), gv.Index(i)); err != nil {
				return err
			}
		}
	case reflect.Map:
		if wv.Len() == 0 {
			if isNilish(gv) {
				return nil
			}
			return fail(path, "want empty map, got %s", short(gv))
		}
		if n := wv.Type().Name(); n != "" {
			if _, ok := c.nameMap[n]; ok {
				if !gv.IsValid() || gv.Type() != wv.Type() {
					return fail(path, "want typed map %v, got %s", wv.Type(), short(gv))
				}
				return c.static(path, wv, gv, false)
			}
		}
		if !gv.IsValid() || gv.Type() != reflect.TypeOf(map[interface{}]interface{}{}) {
			return fail(path, "want map[interface{}]interface{} (untyped map of %v), got %s", wv.Type(), short(gv))
		}
		if gv.Len() != wv.Len() {
			return fail(path, "map size: want %d, got %d", wv.Len(), gv.Len())
		}
		it := wv.MapRange()
		for it.Next() {
			if isPointerKey(it.Key()) {
				// a key that is an object: the result's key is the object paired with it earlier (the key travelled
				// as a back-reference), or an unpaired object key of equal content and value
				wp := keyPointer(it.Key())
				kp := fmt.Sprintf("%s[object key]", path)
				var gk, g reflect.Value
				git := gv.MapRange()
				for git.Next() {
					if !isPointerKey(git.Key()) {
						continue
					}
					gp := keyPointer(git.Key())
					if paired, ok := c.w2g[wp]; ok {
						if paired == gp {
							gk, g = git.Key(), git.Value()
							break
						}
						continue
					}
					if _, taken := c.g2w[gp]; taken {
						continue
					}
					sub := &cmp{nameMap: c.nameMap, w2g: map[unsafe.Pointer]unsafe.Pointer{}, g2w: map[unsafe.Pointer]unsafe.Pointer{}}
					if sub.dyn(kp, it.Key(), git.Key()) == nil && sub.dyn(kp, it.Value(), git.Value()) == nil {
						gk, g = git.Key(), git.Value()
						break
					}
				}
				if !gk.IsValid() {
					return fail(kp, "no key of the result is the object %s (paired earlier: %v)", short(it.Key()), c.w2g[wp] != nil)
				}
				if err := c.dyn(kp, it.Key(), gk); err != nil {
					return err
				}
				if err := c.dyn(kp+" value", it.Value(), g); err != nil {
					return err
				}
				continue
			}
			ck, err := canonKey(it.Key())
			if err != nil {
				return fail(path, "%v", err)
			}
			g := gv.MapIndex(ck)
			if !g.IsValid() && ck.Kind() == reflect.String && ck.Len() == 0 {
				// an absent string equals the empty string: key "" may come back as a null key
				g = gv.MapIndex(reflect.Zero(gv.Type().Key()))
			}
			kp := fmt.Sprintf("%s[%v]", path, clip(fmt.Sprint(ck.Interface())))
			if !g.IsValid() {
				return fail(kp, "key (%v) missing in result", ck.Type())
			}
			if err := c.dyn(kp, it.Value(), g); err != nil {
				return err
			}
		}
	default:
		return fail(path, "comparator: unsupported kind %v", wv.Kind())
	}
	return nil
}

// dynElem compares an element of a list that came back through another Go slice
// type of the same wire name: numbers by value, structs through either pointer level.
func (c *cmp) dynElem(path string, wv, gv reflect.Value) error {
	switch {
	case IntKindOf(wv) && IntKindOf(gv):
		if asInt(wv) != asInt(gv) {
			return fail(path, "want %d, got %d", asInt(wv), asInt(gv))
		}
		return nil
	case (wv.Kind() == reflect.Float32 || wv.Kind() == reflect.Float64) && (gv.Kind() == reflect.Float32 || gv.Kind() == reflect.Float64):
		if !eqFloat(wv.Float(), gv.Float()) {
			return fail(path, "want %v, got %v", wv.Float(), gv.Float())
		}
		return nil
	case wv.Kind() == reflect.Struct && gv.Kind() == reflect.Struct && wv.Type() == gv.Type():
		return c.static(path, wv, gv, false)
	case wv.Kind() == reflect.Ptr && gv.Kind() == reflect.Struct && wv.Type().Elem() == gv.Type():
		if wv.IsNil() {
			if !gv.IsZero() {
				return fail(path, "want nil pointer, got non-zero struct")
			}
			return nil
		}
		return c.static(path, wv.Elem(), gv, false)
	}
	return c.dyn(path, wv, gv)
}

func IntKindOf(v reflect.Value) bool {
	switch v.Kind() {
	case reflect.Int, reflect.Int8, reflect.Int16, reflect.Int32, reflect.Int64, reflect.Uint, reflect.Uint8, reflect.Uint16, reflect.Uint32, reflect.Uint64:
		return true
	}
	return false
}

func asInt(v reflect.Value) int64 {
	switch v.Kind() {
	case reflect.Int, reflect.Int8, reflect.Int16, reflect.Int32, reflect.Int64:
		return v.Int()
	}
	return int64(v.Uint())
}

func ifaceOf(v reflect.Value) interface{} {
	if !v.IsValid() {
		return nil
	}
	return v.Interface()
}

func wantCanon(path string, w interface{}, gv reflect.Value) error {
	if !gv.IsValid() || gv.Type() != reflect.TypeOf(w) || gv.Interface() != w {
		return fail(path, "want %T %v, got %s", w, w, short(gv))
	}
	return nil
}

func canonKey(k reflect.Value) (reflect.Value, error) {
	for k.Kind() == reflect.Interface {
		k = k.Elem()
	}
	switch k.Kind() {
	case reflect.Int8, reflect.Int16, reflect.Int32, reflect.Int:
		return reflect.ValueOf(int32(k.Int())), nil
	case reflect.Uint8, reflect.Uint16:
		return reflect.ValueOf(int32(k.Uint())), nil
	case reflect.Int64:
		return reflect.ValueOf(k.Int()), nil
	case reflect.Uint, reflect.Uint32, reflect.Uint64:
		return reflect.ValueOf(int64(k.Uint())), nil
	case reflect.Float32, reflect.Float64:
		return reflect.ValueOf(k.Float()), nil
	case reflect.String:
		return reflect.ValueOf(k.String()), nil // also for named string types
	case reflect.Bool:
		return reflect.ValueOf(k.Bool()), nil
	}
	return k, fmt.Errorf("comparator: unsupported map key kind %v", k.Kind())
}

// static: both values have the same static type (a typed position).
// strictDyn: interface slots must hold identical dynamic types (differential use).
func (c *cmp) static(path string, wv, gv reflect.Value, strictDyn bool) error {
	switch wv.Kind() {
	case reflect.Bool:
		if wv.Bool() != gv.Bool() {
			return fail(path, "want %v, got %v", wv.Bool(), gv.Bool())
		}
	case reflect.Int, reflect.Int8, reflect.Int16, reflect.Int32, reflect.Int64:
		if wv.Int() != gv.Int() {
			return fail(path, "want %v %d, got %d", wv.Type(), wv.Int(), gv.Int())
		}
	case reflect.Uint, reflect.Uint8, reflect.Uint16, reflect.Uint32, reflect.Uint64:
		if wv.Uint() != gv.Uint() {
			return fail(path, "want %v %d, got %d", wv.Type(), wv.Uint(), gv.Uint())
		}
	case reflect.Float32, reflect.Float64:
		if !eqFloat(wv.Float(), gv.Float()) {
			return fail(path, "want %v %v (bits %x), got %v (bits %x)", wv.Type(), wv.Float(), math.Float64bits(wv.Float()), gv.Float(), math.Float64bits(gv.Float()))
		}
	case reflect.String:
		if wv.String() != gv.String() {
			return fail(path, "want string %q, got %q", clip(wv.String()), clip(gv.String()))
		}
	case reflect.Struct:
		if wv.Type() == zoo.TimeType {
			w, g := wv.Interface().(time.Time), gv.Interface().(time.Time)
			if !eqTime(w, g) {
				return fail(path, "want time %v, got %v", w.UTC().Format(time.RFC3339Nano), g.UTC().Format(time.RFC3339Nano))
			}
			// two decoder results (differential use): the same Go value, zone included - a timestamp is compared
			// with == as a map key and by reflect.DeepEqual
			if strictDyn && !w.IsZero() && w.Location().String() != g.Location().String() {
				return fail(path, "the same instant %v in different locations: %v vs %v", w.UTC().Format(time.RFC3339Nano), w.Location(), g.Location())
			}
			return nil
		}
		for i := 0; i < wv.NumField(); i++ {
			if err := c.static(path+"."+wv.Type().Field(i).Name, wv.Field(i), gv.Field(i), strictDyn); err != nil {
				return err
			}
		}
	case reflect.Ptr:
		if ek := wv.Type().Elem().Kind(); ek == reflect.Slice || ek == reflect.Map {
			// pointer to a container: nil and empty are identified through the pointer too,
			// and only contents are compared (identity is asserted for objects)
			we, ge := reflect.Zero(wv.Type().Elem()), reflect.Zero(wv.Type().Elem())
			if !wv.IsNil() {
				we = wv.Elem()
			}
			if !gv.IsNil() {
				ge = gv.Elem()
			}
			return c.static(path, we, ge, strictDyn)
		}
		if wv.IsNil() || gv.IsNil() {
			if wv.IsNil() != gv.IsNil() {
				return fail(path, "pointer nil-ness: want nil=%v, got nil=%v", wv.IsNil(), gv.IsNil())
			}
			return nil
		}
		if wv.Type().Elem() == zoo.TimeType {
			return c.static(path, wv.Elem(), gv.Elem(), strictDyn)
		}
		seen, err := c.bij(path, wv.UnsafePointer(), gv.UnsafePointer())
		if err != nil || seen {
			return err
		}
		return c.static(path, wv.Elem(), gv.Elem(), strictDyn)
	case reflect.Slice:
		if wv.Type().Elem().Kind() != reflect.Uint8 && wv.Len() > 0 && gv.Len() > 0 {
			if c.enter(wv.Pointer(), gv.Pointer(), wv.Len()) {
				return nil // this pair is already being compared further up (cyclic lists), or was compared before
			}
		}
		if wv.Type().Elem().Kind() == reflect.Uint8 {
			if !bytes.Equal(wv.Bytes(), gv.Bytes()) {
				return fail(path, "want []byte(%d) %x, got (%d) %x", wv.Len(), clipB(wv.Bytes()), gv.Len(), clipB(gv.Bytes()))
			}
			return nil
		}
		if wv.Len() != gv.Len() {
			return fail(path, "slice length: want %d, got %d", wv.Len(), gv.Len())
		}
		for i := 0; i < wv.Len(); i++ {
			if err := c.static(fmt.Sprintf("%s[%d]", path, i), wv.Index(i), gv.Index(i), strictDyn); err != nil {
				return err
			}
		}
	case reflect.Map:
		if wv.Len() != gv.Len() {
			return fail(path, "map size: want %d, got %d", wv.Len(), gv.Len())
		}
		if wv.Len() > 0 {
			if c.enter(wv.Pointer(), gv.Pointer(), -1) {
				return nil
			}
		}
		usedKeys := map[unsafe.Pointer]bool{} // result keys already matched to a pointer key of the original
		var nanVals []reflect.Value
		var nanUsed []bool
		it := wv.MapRange()
		for it.Next() {
			g := gv.MapIndex(it.Key())
			if !g.IsValid() && it.Key().Kind() == reflect.Interface && !it.Key().IsNil() &&
				it.Key().Elem().Kind() == reflect.String && it.Key().Elem().Len() == 0 {
				// an absent string equals the empty string: key "" may come back as a null key
				g = gv.MapIndex(reflect.Zero(gv.Type().Key()))
			}
			if !g.IsValid() && it.Key().Kind() == reflect.Interface && it.Key().IsNil() {
				// ... and a null key may come back as the key ""
				g = gv.MapIndex(reflect.ValueOf(""))
			}
			if !g.IsValid() && isNaNKey(it.Key()) {
				// NaN never equals itself (MapIndex cannot find it) and a map may hold several NaN keys: the
				// entries are collected once and matched as a multiset, by value
				if nanVals == nil {
					jt := gv.MapRange()
					for jt.Next() {
						if isNaNKey(jt.Key()) {
							nanVals = append(nanVals, jt.Value())
						}
					}
					nanUsed = make([]bool, len(nanVals))
				}
				pick := -1
				for i, nv := range nanVals {
					if nanUsed[i] {
						continue
					}
					if pick < 0 {
						pick = i
					}
					sub := &cmp{nameMap: c.nameMap, w2g: map[unsafe.Pointer]unsafe.Pointer{}, g2w: map[unsafe.Pointer]unsafe.Pointer{}}
					if sub.static(path, it.Value(), nv, strictDyn) == nil {
						pick = i
						break
					}
				}
				if pick >= 0 {
					nanUsed[pick] = true
					g = nanVals[pick]
				}
			}
			if !g.IsValid() && isPointerKey(it.Key()) {
				// a pointer used as a key (an object as a map key): the two maps hold different
				// pointers; match the key by content
				// (several keys may have equal content: prefer the key this pointer is already paired with,
				// then an unused key whose value matches too, then any unused key with equal content)
				wp := keyPointer(it.Key())
				var fallback reflect.Value
				var chosen reflect.Value
				for _, gk := range gv.MapKeys() {
					if !isPointerKey(gk) || usedKeys[keyPointer(gk)] {
						continue
					}
					if paired, ok := c.w2g[wp]; ok {
						if paired == keyPointer(gk) {
							chosen = gk
							break
						}
						continue
					}
					if _, taken := c.g2w[keyPointer(gk)]; taken {
						continue
					}
					sub := &cmp{nameMap: c.nameMap, w2g: map[unsafe.Pointer]unsafe.Pointer{}, g2w: map[unsafe.Pointer]unsafe.Pointer{}}
					if sub.static(path, it.Key(), gk, strictDyn) != nil {
						continue
					}
					if !fallback.IsValid() {
						fallback = gk
					}
					sub2 := &cmp{nameMap: c.nameMap, w2g: map[unsafe.Pointer]unsafe.Pointer{}, g2w: map[unsafe.Pointer]unsafe.Pointer{}}
					if sub2.static(path, it.Value(), gv.MapIndex(gk), strictDyn) == nil {
						chosen = gk
						break
					}
				}
				if !chosen.IsValid() {
					chosen = fallback
				}
				if chosen.IsValid() {
					usedKeys[keyPointer(chosen)] = true
					g = gv.MapIndex(chosen)
					// the key objects take part in the aliasing relation like any other object
					if err := c.static(fmt.Sprintf("%s[key]", path), it.Key(), chosen, strictDyn); err != nil {
						return err
					}
				}
			}
			kp := fmt.Sprintf("%s[%v]", path, clip(fmt.Sprint(it.Key().Interface())))
			if !g.IsValid() {
				return fail(kp, "key missing in result")
			}
			if err := c.static(kp, it.Value(), g, strictDyn); err != nil {
				return err
			}
		}
	case reflect.Interface:
		we, ge := wv.Elem(), gv.Elem()
		if strictDyn {
			if !we.IsValid() || !ge.IsValid() {
				// an absent string equals the empty string
				if we.IsValid() != ge.IsValid() && !emptyString(we) && !emptyString(ge) {
					return fail(path, "one side nil: %s vs %s", short(we), short(ge))
				}
				return nil
			}
			if we.Type() != ge.Type() {
				return fail(path, "dynamic types differ: %v vs %v", we.Type(), ge.Type())
			}
			return c.static(path, we, ge, true)
		}
		return c.dyn(path, we, ge)
	default:
		return fail(path, "comparator: unsupported kind %v", wv.Kind())
	}
	return nil
}

func isNaNKey(k reflect.Value) bool {
	for k.Kind() == reflect.Interface && !k.IsNil() {
		k = k.Elem()
	}
	return (k.Kind() == reflect.Float64 || k.Kind() == reflect.Float32) && k.Float() != k.Float()
}

// keyPointer is the address a pointer-valued map key holds (through an interface, if any).
func keyPointer(k reflect.Value) unsafe.Pointer {
	for k.Kind() == reflect.Interface && !k.IsNil() {
		k = k.Elem()
	}
	if k.Kind() == reflect.Ptr {
		return k.UnsafePointer()
	}
	return nil
}

func clip(s string) string {
	if len(s) > 60 {
		return s[:60] + "..."
	}
	return s
}
func clipB(b []byte) []byte {
	if len(b) > 24 {
		return b[:24]
	}
	return b
}

func short(v reflect.Value) string {
	if !v.IsValid() {
		return "<nil>"
	}
	// cycle-safe rendering (a decoded graph may be cyclic)
	return clipN(zoo.Describe(v.Interface(), 160), 260)
}

func clipN(s string, n int) string {
	if len(s) > n {
		return s[:n] + "..."
	}
	return s
}

func emptyString(v reflect.Value) bool {
	return v.IsValid() && v.Kind() == reflect.String && v.Len() == 0
}

// enter reports whether the pair (a, b) of lists / maps is being compared further up
// (cycle) or has been compared before (shared sub-structure: l1 = [l0, l0], l2 = [l1, l1], ...
// would otherwise cost 2^depth comparisons). A pair that differed ended the comparison, so a
// pair seen before was equal.
func (c *cmp) enter(a, b uintptr, n int) bool {
	if c.open == nil {
		c.open = map[[3]uintptr]bool{}
	}
	k := [3]uintptr{a, b, uintptr(n)}
	if c.open[k] {
		return true
	}
	c.open[k] = true
	return false
}

func (c *cmp) leave(a, b uintptr, n int) {} // the pair stays marked: compared (or being compared) once

func isPointerKey(k reflect.Value) bool {
	for k.Kind() == reflect.Interface && !k.IsNil() {
		k = k.Elem()
	}
	return k.Kind() == reflect.Ptr
}
