// Package refcodec is an independent Hessian 2.0 codec written from the grammar
// (the productions quoted in the headers of gohessian's source files, which are
// excerpts of the published serialization document, plus the document's
// top-level grammar). It imports nothing from gohessian.
//
//	top        ::= value
//	value      ::= null | boolean | int | long | double | date | string | binary
//	             | list | map | object | class-def value | ref
//	null       ::= 'N'
//	boolean    ::= 'T' | 'F'
//	int        ::= 'I' b3 b2 b1 b0 | [x80-xbf] | [xc0-xcf] b0 | [xd0-xd7] b1 b0
//	long       ::= 'L' b7..b0 | [xd8-xef] | [xf0-xff] b0 | [x38-x3f] b1 b0 | x59 b3 b2 b1 b0
//	double     ::= 'D' b7..b0 | x5b | x5c | x5d b0 | x5e b1 b0 | x5f b3 b2 b1 b0
//	date       ::= x4a b7..b0 | x4b b3 b2 b1 b0
//	string     ::= 'R' b1 b0 <utf8> string | 'S' b1 b0 <utf8> | [x00-x1f] <utf8> | [x30-x33] b0 <utf8>
//	binary     ::= ('b'|'A') b1 b0 <data> binary | 'B' b1 b0 <data> | [x20-x2f] <data> | [x34-x37] b0 <data>
//	list       ::= x55 type value* 'Z' | 'V' type int value* | x57 value* 'Z' | x58 int value*
//	             | [x70-77] type value* | [x78-7f] value*
//	map        ::= 'M' type (value value)* 'Z' | 'H' (value value)* 'Z'
//	class-def  ::= 'C' string int string*
//	object     ::= 'O' int value* | [x60-x6f] value*
//	ref        ::= x51 int
//	type       ::= string | int
package refcodec

import (
	"encoding/binary"
	"fmt"
	"math"
	"unicode/utf8"

	"verif/harness/av"
)

type ClassDef struct {
	Name   string
	Fields []string
	Start  int
	End    int
}

// Token is a syntactic item of the stream, used by structure-aware mutation.
type Token struct {
	Kind  string // tag, int, strlen, binlen, count, classidx, typeref, refidx, typename, classname, fieldname, value
	Start int
	End   int
}

type Error struct {
	Pos int
	Msg string
}

func (e *Error) Error() string { return fmt.Sprintf("refdecode @%d: %s", e.Pos, e.Msg) }

type Decoder struct {
	B       []byte
	Pos     int
	Types   []string
	Classes []ClassDef
	Refs    []*av.V
	Tokens  []Token
	// KeepTokens enables Token recording.
	KeepTokens bool
	// RefNodes lists every Ref node read, in stream order.
	RefNodes []*av.V
	depth    int
}

func NewDecoder(b []byte) *Decoder { return &Decoder{B: b} }

// MaxDepth bounds recursion of the reference decoder itself.
const MaxDepth = 5000

func (d *Decoder) errf(pos int, f string, a ...interface{}) error {
	return &Error{Pos: pos, Msg: fmt.Sprintf(f, a...)}
}

func (d *Decoder) tok(kind string, s, e int) {
	if d.KeepTokens {
		d.Tokens = append(d.Tokens, Token{kind, s, e})
	}
}

func (d *Decoder) need(n int) error {
	if n < 0 || d.Pos+n > len(d.B) {
		return d.errf(d.Pos, "truncated: need %d octets, have %d", n, len(d.B)-d.Pos)
	}
	return nil
}

func (d *Decoder) byte() (byte, error) {
	if err := d.need(1); err != nil {
		return 0, err
	}
	b := d.B[d.Pos]
	d.Pos++
	return b, nil
}

// Decode parses exactly one value and requires that it spans all of b.
func Decode(b []byte) (*av.V, *Decoder, error) {
	d := NewDecoder(b)
	v, err := d.Value()
	if err != nil {
		return nil, d, err
	}
	if d.Pos != len(b) {
		return v, d, d.errf(d.Pos, "trailing octets: value ends at %d of %d", d.Pos, len(b))
	}
	return v, d, nil
}

// Value reads one value (consuming any class definitions in front of it).
func (d *Decoder) Value() (*av.V, error) {
	d.depth++
	defer func() { d.depth-- }()
	if d.depth > MaxDepth {
		return nil, d.errf(d.Pos, "nesting deeper than %d", MaxDepth)
	}
	for {
		start := d.Pos
		tag, err := d.byte()
		if err != nil {
			return nil, err
		}
		if tag == 'C' {
			if err := d.classDef(start); err != nil {
				return nil, err
			}
			continue
		}
		v, err := d.tagged(tag, start)
		if err != nil {
			return nil, err
		}
		if v.W == nil {
			v.W = &av.Wire{}
		}
		v.W.Tag, v.W.Start, v.W.End = tag, start, d.Pos
		d.tok("value", start, d.Pos)
		return v, nil
	}
}

func isIntTag(t byte) bool {
	return t == 'I' || (t >= 0x80 && t <= 0xbf) || (t >= 0xc0 && t <= 0xcf) || (t >= 0xd0 && t <= 0xd7)
}
func isLongTag(t byte) bool {
	return t == 'L' || (t >= 0xd8 && t <= 0xef) || t >= 0xf0 || (t >= 0x38 && t <= 0x3f) || t == 0x59
}
func isDoubleTag(t byte) bool { return t == 'D' || (t >= 0x5b && t <= 0x5f) }
func isStringTag(t byte) bool {
	return t <= 0x1f || (t >= 0x30 && t <= 0x33) || t == 'R' || t == 'S'
}
func isBinaryStart(t byte) bool {
	return (t >= 0x20 && t <= 0x2f) || (t >= 0x34 && t <= 0x37) || t == 'A' || t == 'B' || t == 'b'
}

func (d *Decoder) tagged(tag byte, start int) (*av.V, error) {
	switch {
	case tag == 'N':
		return av.NullV(), nil
	case tag == 'T':
		return av.BoolV(true), nil
	case tag == 'F':
		return av.BoolV(false), nil
	case isIntTag(tag):
		i, err := d.intBody(tag, start)
		if err != nil {
			return nil, err
		}
		return av.IntV(i), nil
	case isLongTag(tag):
		i, err := d.longBody(tag, start)
		if err != nil {
			return nil, err
		}
		return av.LongV(i), nil
	case isDoubleTag(tag):
		return d.doubleBody(tag, start)
	case tag == 0x4a:
		if err := d.need(8); err != nil {
			return nil, err
		}
		ms := int64(binary.BigEndian.Uint64(d.B[d.Pos:]))
		d.Pos += 8
		return av.DateV(ms), nil
	case tag == 0x4b:
		if err := d.need(4); err != nil {
			return nil, err
		}
		min := int64(int32(binary.BigEndian.Uint32(d.B[d.Pos:])))
		d.Pos += 4
		v := av.DateV(min * 60000)
		v.W = &av.Wire{Compact: true}
		return v, nil
	case isStringTag(tag):
		s, chunks, err := d.stringBody(tag, start)
		if err != nil {
			return nil, err
		}
		v := av.StringV(s)
		v.W = &av.Wire{Chunks: chunks}
		return v, nil
	case tag >= 0x60 && tag <= 0x6f:
		idx := int(tag - 0x60)
		// x62 is both "object of class #2" and (in the section-4 grammar this
		// library follows) the non-final binary chunk 'b'. It denotes an object
		// exactly when class #2 has been defined.
		if tag == 'b' && idx >= len(d.Classes) {
			return d.binaryValue(tag, start)
		}
		d.tok("classidx", start, start+1)
		return d.object(idx, start, false)
	case tag == 'O':
		s := d.Pos
		i, err := d.intValue()
		if err != nil {
			return nil, err
		}
		d.tok("classidx", s, d.Pos)
		return d.object(int(i), start, true)
	case isBinaryStart(tag):
		return d.binaryValue(tag, start)
	case tag == 0x51:
		s := d.Pos
		i, err := d.intValue()
		if err != nil {
			return nil, err
		}
		d.tok("refidx", s, d.Pos)
		if i < 0 || int(i) >= len(d.Refs) {
			return nil, d.errf(start, "ref #%d but only %d containers so far", i, len(d.Refs))
		}
		v := &av.V{K: av.Ref, Ord: int(i), Target: d.Refs[i]}
		d.RefNodes = append(d.RefNodes, v)
		return v, nil
	case tag == 'H' || tag == 'M':
		return d.mapBody(tag, start)
	case tag == 0x55 || tag == 'V' || tag == 0x57 || tag == 0x58 || (tag >= 0x70 && tag <= 0x7f):
		return d.listBody(tag, start)
	case tag == 'Z':
		return nil, d.errf(start, "unexpected end marker 'Z'")
	}
	return nil, d.errf(start, "unknown tag 0x%02x", tag)
}

func (d *Decoder) binaryValue(tag byte, start int) (*av.V, error) {
	b, chunks, err := d.binaryBody(tag, start)
	if err != nil {
		return nil, err
	}
	v := av.BinaryV(b)
	v.W = &av.Wire{Chunks: chunks}
	return v, nil
}

func (d *Decoder) intValue() (int32, error) {
	start := d.Pos
	tag, err := d.byte()
	if err != nil {
		return 0, err
	}
	if !isIntTag(tag) {
		return 0, d.errf(start, "expected int, got tag 0x%02x", tag)
	}
	return d.intBody(tag, start)
}

func (d *Decoder) intBody(tag byte, start int) (int32, error) {
	defer func() { d.tok("int", start, d.Pos) }()
	switch {
	case tag >= 0x80 && tag <= 0xbf:
		return int32(tag) - 0x90, nil
	case tag >= 0xc0 && tag <= 0xcf:
		b0, err := d.byte()
		if err != nil {
			return 0, err
		}
		return (int32(tag)-0xc8)*256 + int32(b0), nil
	case tag >= 0xd0 && tag <= 0xd7:
		if err := d.need(2); err != nil {
			return 0, err
		}
		v := (int32(tag)-0xd4)*65536 + int32(d.B[d.Pos])*256 + int32(d.B[d.Pos+1])
		d.Pos += 2
		return v, nil
	case tag == 'I':
		if err := d.need(4); err != nil {
			return 0, err
		}
		v := int32(binary.BigEndian.Uint32(d.B[d.Pos:]))
		d.Pos += 4
		return v, nil
	}
	return 0, d.errf(start, "not an int tag 0x%02x", tag)
}

func (d *Decoder) longBody(tag byte, start int) (int64, error) {
	switch {
	case tag >= 0xd8 && tag <= 0xef:
		return int64(tag) - 0xe0, nil
	case tag >= 0xf0:
		b0, err := d.byte()
		if err != nil {
			return 0, err
		}
		return (int64(tag)-0xf8)*256 + int64(b0), nil
	case tag >= 0x38 && tag <= 0x3f:
		if err := d.need(2); err != nil {
			return 0, err
		}
		v := (int64(tag)-0x3c)*65536 + int64(d.B[d.Pos])*256 + int64(d.B[d.Pos+1])
		d.Pos += 2
		return v, nil
	case tag == 0x59:
		if err := d.need(4); err != nil {
			return 0, err
		}
		v := int64(int32(binary.BigEndian.Uint32(d.B[d.Pos:])))
		d.Pos += 4
		return v, nil
	case tag == 'L':
		if err := d.need(8); err != nil {
			return 0, err
		}
		v := int64(binary.BigEndian.Uint64(d.B[d.Pos:]))
		d.Pos += 8
		return v, nil
	}
	return 0, d.errf(start, "not a long tag 0x%02x", tag)
}

func (d *Decoder) doubleBody(tag byte, start int) (*av.V, error) {
	switch tag {
	case 0x5b:
		return av.DoubleV(0), nil
	case 0x5c:
		return av.DoubleV(1), nil
	case 0x5d:
		b, err := d.byte()
		if err != nil {
			return nil, err
		}
		return av.DoubleV(float64(int8(b))), nil
	case 0x5e:
		if err := d.need(2); err != nil {
			return nil, err
		}
		v := int16(binary.BigEndian.Uint16(d.B[d.Pos:]))
		d.Pos += 2
		return av.DoubleV(float64(v)), nil
	case 0x5f:
		if err := d.need(4); err != nil {
			return nil, err
		}
		f := math.Float32frombits(binary.BigEndian.Uint32(d.B[d.Pos:]))
		d.Pos += 4
		return av.DoubleV(float64(f)), nil
	case 'D':
		if err := d.need(8); err != nil {
			return nil, err
		}
		v := &av.V{K: av.Double, F: binary.BigEndian.Uint64(d.B[d.Pos:])}
		d.Pos += 8
		return v, nil
	}
	return nil, d.errf(start, "not a double tag 0x%02x", tag)
}

// stringBody reads all chunks of a string whose first tag was already consumed.
// Lengths count characters (code points); every chunk must be whole, valid UTF-8.
func (d *Decoder) stringBody(tag byte, start int) (string, []av.Chunk, error) {
	var out []byte
	var chunks []av.Chunk
	cstart := start
	for {
		var n int
		final := true
		switch {
		case tag <= 0x1f:
			n = int(tag)
		case tag >= 0x30 && tag <= 0x33:
			b0, err := d.byte()
			if err != nil {
				return "", nil, err
			}
			n = int(tag-0x30)<<8 | int(b0)
		case tag == 'S' || tag == 'R':
			if err := d.need(2); err != nil {
				return "", nil, err
			}
			n = int(d.B[d.Pos])<<8 | int(d.B[d.Pos+1])
			d.Pos += 2
			final = tag == 'S'
		default:
			return "", nil, d.errf(cstart, "expected string chunk, got tag 0x%02x", tag)
		}
		d.tok("strlen", cstart, d.Pos)
		for i := 0; i < n; i++ {
			if d.Pos >= len(d.B) {
				return "", nil, d.errf(d.Pos, "truncated string: chunk declares %d characters, %d present", n, i)
			}
			r, sz := utf8.DecodeRune(d.B[d.Pos:])
			if r == utf8.RuneError && sz <= 1 {
				return "", nil, d.errf(d.Pos, "invalid UTF-8 in string chunk (character %d of %d)", i, n)
			}
			out = append(out, d.B[d.Pos:d.Pos+sz]...)
			d.Pos += sz
		}
		chunks = append(chunks, av.Chunk{Tag: tag, Len: n, Start: cstart, End: d.Pos})
		if final {
			return string(out), chunks, nil
		}
		cstart = d.Pos
		var err error
		tag, err = d.byte()
		if err != nil {
			return "", nil, err
		}
	}
}

func (d *Decoder) binaryBody(tag byte, start int) ([]byte, []av.Chunk, error) {
	out := []byte{}
	var chunks []av.Chunk
	cstart := start
	for {
		var n int
		final := true
		switch {
		case tag >= 0x20 && tag <= 0x2f:
			n = int(tag - 0x20)
		case tag >= 0x34 && tag <= 0x37:
			b0, err := d.byte()
			if err != nil {
				return nil, nil, err
			}
			n = int(tag-0x34)<<8 | int(b0)
		case tag == 'B' || tag == 'b' || tag == 'A':
			if err := d.need(2); err != nil {
				return nil, nil, err
			}
			n = int(d.B[d.Pos])<<8 | int(d.B[d.Pos+1])
			d.Pos += 2
			final = tag == 'B'
		default:
			return nil, nil, d.errf(cstart, "expected binary chunk, got tag 0x%02x", tag)
		}
		d.tok("binlen", cstart, d.Pos)
		if err := d.need(n); err != nil {
			return nil, nil, err
		}
		out = append(out, d.B[d.Pos:d.Pos+n]...)
		d.Pos += n
		chunks = append(chunks, av.Chunk{Tag: tag, Len: n, Start: cstart, End: d.Pos})
		if final {
			return out, chunks, nil
		}
		cstart = d.Pos
		var err error
		tag, err = d.byte()
		if err != nil {
			return nil, nil, err
		}
	}
}

func (d *Decoder) stringValue(what string) (string, error) {
	start := d.Pos
	tag, err := d.byte()
	if err != nil {
		return "", err
	}
	if !isStringTag(tag) {
		return "", d.errf(start, "expected string (%s), got tag 0x%02x", what, tag)
	}
	s, _, err := d.stringBody(tag, start)
	if err == nil {
		d.tok(what, start, d.Pos)
	}
	return s, err
}

func (d *Decoder) classDef(start int) error {
	name, err := d.stringValue("classname")
	if err != nil {
		return err
	}
	cs := d.Pos
	n, err := d.intValue()
	if err != nil {
		return err
	}
	d.tok("count", cs, d.Pos)
	if n < 0 {
		return d.errf(start, "class definition with negative field count %d", n)
	}
	if int(n) > len(d.B)-d.Pos {
		return d.errf(start, "class definition declares %d fields, only %d octets left", n, len(d.B)-d.Pos)
	}
	fields := make([]string, 0, n)
	for i := 0; i < int(n); i++ {
		f, err := d.stringValue("fieldname")
		if err != nil {
			return err
		}
		fields = append(fields, f)
	}
	d.Classes = append(d.Classes, ClassDef{Name: name, Fields: fields, Start: start, End: d.Pos})
	return nil
}

func (d *Decoder) typeName() (string, bool, error) {
	start := d.Pos
	tag, err := d.byte()
	if err != nil {
		return "", false, err
	}
	if isStringTag(tag) {
		s, _, err := d.stringBody(tag, start)
		if err != nil {
			return "", false, err
		}
		d.tok("typename", start, d.Pos)
		d.Types = append(d.Types, s)
		return s, false, nil
	}
	if isIntTag(tag) {
		i, err := d.intBody(tag, start)
		if err != nil {
			return "", false, err
		}
		d.tok("typeref", start, d.Pos)
		if i < 0 || int(i) >= len(d.Types) {
			return "", false, d.errf(start, "type ref #%d but only %d types so far", i, len(d.Types))
		}
		return d.Types[i], true, nil
	}
	return "", false, d.errf(start, "expected type (string or int), got tag 0x%02x", tag)
}

func (d *Decoder) object(idx int, start int, long bool) (*av.V, error) {
	if idx < 0 || idx >= len(d.Classes) {
		return nil, d.errf(start, "object of class #%d but only %d classes defined so far", idx, len(d.Classes))
	}
	cd := d.Classes[idx]
	v := &av.V{K: av.Object, Type: cd.Name, Fields: cd.Fields, Ord: len(d.Refs), W: &av.Wire{ClassIdx: idx, LongForm: long}}
	d.Refs = append(d.Refs, v)
	for i := 0; i < len(cd.Fields); i++ {
		e, err := d.Value()
		if err != nil {
			return nil, err
		}
		v.Elems = append(v.Elems, e)
	}
	return v, nil
}

func (d *Decoder) atEnd() (bool, error) {
	if err := d.need(1); err != nil {
		return false, err
	}
	if d.B[d.Pos] == 'Z' {
		d.tok("tag", d.Pos, d.Pos+1)
		d.Pos++
		return true, nil
	}
	return false, nil
}

func (d *Decoder) mapBody(tag byte, start int) (*av.V, error) {
	v := &av.V{K: av.Map, W: &av.Wire{}}
	if tag == 'M' {
		t, isRef, err := d.typeName()
		if err != nil {
			return nil, err
		}
		v.Typed, v.Type, v.W.TypeRef = true, t, isRef
	}
	v.Ord = len(d.Refs)
	d.Refs = append(d.Refs, v)
	for {
		end, err := d.atEnd()
		if err != nil {
			return nil, err
		}
		if end {
			return v, nil
		}
		k, err := d.Value()
		if err != nil {
			return nil, err
		}
		if e, _ := d.peekZ(); e {
			return nil, d.errf(d.Pos, "map ends after a key without a value")
		}
		val, err := d.Value()
		if err != nil {
			return nil, err
		}
		v.Elems = append(v.Elems, k, val)
	}
}

func (d *Decoder) peekZ() (bool, error) {
	if d.Pos < len(d.B) && d.B[d.Pos] == 'Z' {
		return true, nil
	}
	return false, nil
}

func (d *Decoder) listBody(tag byte, start int) (*av.V, error) {
	v := &av.V{K: av.List, W: &av.Wire{}}
	typed := tag == 0x55 || tag == 'V' || (tag >= 0x70 && tag <= 0x77)
	if typed {
		t, isRef, err := d.typeName()
		if err != nil {
			return nil, err
		}
		v.Typed, v.Type, v.W.TypeRef = true, t, isRef
	}
	n := -1
	switch {
	case tag == 'V' || tag == 0x58:
		cs := d.Pos
		c, err := d.intValue()
		if err != nil {
			return nil, err
		}
		d.tok("count", cs, d.Pos)
		if c < 0 {
			return nil, d.errf(start, "list with negative length %d", c)
		}
		n = int(c)
	case tag >= 0x70 && tag <= 0x77:
		n = int(tag - 0x70)
		v.W.Compact = true
	case tag >= 0x78 && tag <= 0x7f:
		n = int(tag - 0x78)
		v.W.Compact = true
	default:
		v.W.Variable = true
	}
	v.Ord = len(d.Refs)
	d.Refs = append(d.Refs, v)
	if n >= 0 {
		if n > len(d.B)-d.Pos {
			return nil, d.errf(start, "list declares %d elements, only %d octets left", n, len(d.B)-d.Pos)
		}
		for i := 0; i < n; i++ {
			e, err := d.Value()
			if err != nil {
				return nil, err
			}
			v.Elems = append(v.Elems, e)
		}
		return v, nil
	}
	for {
		end, err := d.atEnd()
		if err != nil {
			return nil, err
		}
		if end {
			return v, nil
		}
		e, err := d.Value()
		if err != nil {
			return nil, err
		}
		v.Elems = append(v.Elems, e)
	}
}
