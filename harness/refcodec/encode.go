package refcodec

import (
	"bytes"
	"math"
	"strings"
	"unicode/utf8"

	"verif/harness/av"
)

// Choices supplies a number in [0,n) wherever the grammar offers n alternatives.
// Alternative 0 is always the rendering the encoder under test would pick
// (shortest form, one chunk, definition right before first use, ...).
type Choices interface {
	Choose(n int, what string) int
}

// Canonical always takes alternative 0.
type Canonical struct{}

func (Canonical) Choose(n int, what string) int { return 0 }

// Recorded replays a vector of choices (0 beyond its end) and records arities.
type Recorded struct {
	In      []int
	Taken   []int
	Arities []int
	Labels  []string
}

func (r *Recorded) Choose(n int, what string) int {
	i := len(r.Taken)
	c := 0
	if i < len(r.In) {
		c = r.In[i]
	}
	if c >= n {
		c = n - 1
	}
	r.Taken = append(r.Taken, c)
	r.Arities = append(r.Arities, n)
	r.Labels = append(r.Labels, what)
	return c
}

// NextOdometer advances a choice vector to the next leaf of the choice tree
// whose arities were observed in rec; ok=false after the last leaf.
func NextOdometer(rec *Recorded) (next []int, ok bool) {
	v := append([]int{}, rec.Taken...)
	for i := len(v) - 1; i >= 0; i-- {
		if v[i]+1 < rec.Arities[i] {
			v[i]++
			return v[:i+1], true
		}
	}
	return nil, false
}

type EncOptions struct {
	// BinChunkTag is the non-final binary chunk tag: 'A' (Hessian 2.0) or 'b' (the draft quoted in binary.go, still accepted
	// by the decoder where x62 cannot be an instance of class #2).
	BinChunkTag byte
	// CompactDate allows the x4b (minutes) form for whole-minute instants.
	CompactDate bool
	// HoistAnywhere lets pending class definitions be emitted in front of any value.
	HoistAnywhere bool
	// MaxPadding: up to this many unused class definitions may be planted at the
	// start of the stream (moves every class index up).
	MaxPadding int
	// MaxChunks bounds the number of chunks a string / binary is split into.
	MaxChunks int
	// PadExact plants exactly this many unused class definitions at the start (0 = use MaxPadding).
	PadExact int
	// ForceLongObject writes every instance in the 'O' int form.
	ForceLongObject bool
	// PadSame makes the PadExact padding definitions copies of one and the same definition (a writer that
	// sends a definition again; every copy takes an index of its own).
	PadSame bool
}

type Encoder struct {
	W        bytes.Buffer
	C        Choices
	Opt      EncOptions
	typeList []string
	classes  map[string]int
	last     int
	nclasses int
	refs     map[*av.V]int
	nrefs    int
	pending  []*av.V // objects whose class is not yet defined, in order of first use
	// Avoided counts renderings skipped because of the dialect's ambiguity.
	AvoidedAmbiguousBinary int
	// AmbiguousBinary counts multi-chunk binaries written at a statically typed position
	// after class #2 was defined: only the typed reader can tell 'b' from an instance there.
	AmbiguousBinary int
	NonCanonical    int
}

func NewEncoder(c Choices, opt EncOptions) *Encoder {
	if opt.BinChunkTag == 0 {
		opt.BinChunkTag = 'A'
	}
	if opt.MaxChunks == 0 {
		opt.MaxChunks = 4
	}
	return &Encoder{C: c, Opt: opt, classes: map[string]int{}, refs: map[*av.V]int{}}
}

func (e *Encoder) choose(n int, what string) int {
	if n <= 1 {
		return 0
	}
	c := e.C.Choose(n, what)
	if c != 0 {
		e.NonCanonical++
	}
	return c
}

// chooseKeep is choose, remembering the answer for the branch that follows.
func (e *Encoder) chooseKeep(n int, what string) int {
	e.last = e.choose(n, what)
	return e.last
}

// Encode writes one top-level value.
func Encode(v *av.V, c Choices, opt EncOptions) []byte {
	e := NewEncoder(c, opt)
	e.Top(v)
	return e.W.Bytes()
}

// Top writes a top-level value of a stream (class tables persist across calls).
func (e *Encoder) Top(v *av.V) {
	e.collectPending(v)
	if e.nclasses == 0 && e.Opt.PadExact > 0 {
		for i := 0; i < e.Opt.PadExact; i++ {
			if e.Opt.PadSame {
				e.writeClassDef("pad.Same", []string{"x", "y"})
				continue
			}
			e.writeClassDef("pad.X"+string(rune('a'+i%26))+string(rune('0'+i/26)), []string{"x"})
		}
	}
	if len(e.pending) > 0 || e.Opt.MaxPadding > 0 {
		// unused padding definitions at the very start
		if e.nclasses == 0 && e.Opt.MaxPadding > 0 {
			n := e.choose(e.Opt.MaxPadding+1, "padding-defs")
			for i := 0; i < n; i++ {
				e.writeClassDef("pad.P"+string(rune('a'+i%26))+string(rune('0'+i/26)), []string{"x"})
			}
		}
		// hoist a prefix of the pending definitions to the start
		e.maybeHoist("hoist-at-start")
	}
	e.Value(v)
}

// collectPending lists, in order of first use, the classes v needs that are not defined yet.
func (e *Encoder) collectPending(v *av.V) {
	seen := map[string]bool{}
	av.Walk(v, func(x *av.V) {
		if x.K == av.Object {
			if _, ok := e.classes[classKey(x.Type, x.Fields)]; !ok && !seen[classKey(x.Type, x.Fields)] {
				seen[classKey(x.Type, x.Fields)] = true
				e.pending = append(e.pending, x)
			}
		}
	})
}

func (e *Encoder) maybeHoist(what string) {
	// how many of the pending definitions to emit now (0 = none: define just in time)
	var todo []*av.V
	for _, p := range e.pending {
		if _, ok := e.classes[classKey(p.Type, p.Fields)]; !ok {
			todo = append(todo, p)
		}
	}
	e.pending = todo
	if len(todo) == 0 {
		return
	}
	max := len(todo)
	if max > 3 {
		max = 3
	}
	n := e.choose(max+1, what)
	for i := 0; i < n; i++ {
		// optionally out of first-use order
		j := 0
		if len(todo) > 1 {
			j = e.choose(len(todo), "hoist-which")
		}
		p := todo[j]
		todo = append(todo[:j:j], todo[j+1:]...)
		e.writeClassDef(p.Type, p.Fields)
	}
	e.pending = todo
}

func (e *Encoder) writeClassDef(name string, fields []string) int {
	e.W.WriteByte('C')
	e.str(name)
	e.Int(int32(len(fields)))
	for _, f := range fields {
		e.str(f)
	}
	idx := e.nclasses
	e.classes[classKey(name, fields)] = idx
	e.nclasses++
	return idx
}

// classKey: a definition is identified by its class name and its field list - two peers (or two releases of a class)
// may define one class twice on a stream, with other fields or another order; each instance names its own definition
func classKey(name string, fields []string) string {
	return name + "\x00" + strings.Join(fields, "\x01")
}

// Value writes v at the current position.
func (e *Encoder) Value(v *av.V) {
	if e.Opt.HoistAnywhere && len(e.pending) > 0 {
		e.maybeHoist("hoist-here")
	}
	switch v.K {
	case av.Null:
		if v.EmptyMap && e.choose(2, "empty-map-explicit") == 1 {
			// an empty map written out: it is a map, and numbered like one
			e.nrefs++
			e.W.WriteByte('H')
			e.W.WriteByte('Z')
			return
		}
		e.W.WriteByte('N')
	case av.Bool:
		if v.B {
			e.W.WriteByte('T')
		} else {
			e.W.WriteByte('F')
		}
	case av.Int:
		e.Int(int32(v.I))
	case av.Long:
		e.Long(v.I)
	case av.Double:
		e.Double(v)
	case av.Date:
		ms := v.I
		if e.Opt.CompactDate && ms%60000 == 0 && ms/60000 >= math.MinInt32 && ms/60000 <= math.MaxInt32 && e.choose(2, "date-form") == 1 {
			m := int32(ms / 60000)
			e.W.Write([]byte{0x4b, byte(m >> 24), byte(m >> 16), byte(m >> 8), byte(m)})
			return
		}
		e.W.WriteByte(0x4a)
		for s := 56; s >= 0; s -= 8 {
			e.W.WriteByte(byte(uint64(ms) >> uint(s)))
		}
	case av.String:
		if v.S == "" && e.choose(2, "empty-string-as-null") == 1 {
			// an absent string equals the empty string: the Go encoder itself writes "" this way
			e.W.WriteByte('N')
			return
		}
		e.String(v.S, true)
	case av.Binary:
		// only a []byte struct field is read by a reader that expects a binary
		e.Binary(v.Bin, v.Field)
	case av.Ref:
		e.Value(v.Target)
	case av.List, av.Map, av.Object:
		if ord, ok := e.refs[v]; ok {
			e.W.WriteByte(0x51)
			e.Int(int32(ord))
			return
		}
		switch v.K {
		case av.Object:
			e.object(v)
		case av.List:
			e.list(v)
		default:
			e.mapv(v)
		}
	}
}

// ---- numbers

func (e *Encoder) Int(v int32) {
	var forms []int
	if v >= -16 && v <= 47 {
		forms = append(forms, 1)
	}
	if v >= -2048 && v <= 2047 {
		forms = append(forms, 2)
	}
	if v >= -262144 && v <= 262143 {
		forms = append(forms, 3)
	}
	forms = append(forms, 5)
	switch forms[e.choose(len(forms), "int-form")] {
	case 1:
		e.W.WriteByte(byte(0x90 + v))
	case 2:
		e.W.Write([]byte{byte(0xc8 + (v >> 8)), byte(v)})
	case 3:
		e.W.Write([]byte{byte(0xd4 + (v >> 16)), byte(v >> 8), byte(v)})
	default:
		e.W.Write([]byte{'I', byte(v >> 24), byte(v >> 16), byte(v >> 8), byte(v)})
	}
}

func (e *Encoder) Long(v int64) {
	var forms []int
	if v >= -8 && v <= 15 {
		forms = append(forms, 1)
	}
	if v >= -2048 && v <= 2047 {
		forms = append(forms, 2)
	}
	if v >= -262144 && v <= 262143 {
		forms = append(forms, 3)
	}
	if v >= math.MinInt32 && v <= math.MaxInt32 {
		forms = append(forms, 5)
	}
	forms = append(forms, 9)
	switch forms[e.choose(len(forms), "long-form")] {
	case 1:
		e.W.WriteByte(byte(0xe0 + v))
	case 2:
		e.W.Write([]byte{byte(0xf8 + (v >> 8)), byte(v)})
	case 3:
		e.W.Write([]byte{byte(0x3c + (v >> 16)), byte(v >> 8), byte(v)})
	case 5:
		e.W.Write([]byte{0x59, byte(v >> 24), byte(v >> 16), byte(v >> 8), byte(v)})
	default:
		e.W.WriteByte('L')
		for s := 56; s >= 0; s -= 8 {
			e.W.WriteByte(byte(uint64(v) >> uint(s)))
		}
	}
}

func (e *Encoder) Double(v *av.V) {
	x := v.Float()
	bits := v.F
	var forms []byte
	neg0 := bits == 1<<63
	if x == x && !neg0 {
		if bits == 0 {
			forms = append(forms, 0x5b)
		}
		if x == 1 {
			forms = append(forms, 0x5c)
		}
		if x == math.Trunc(x) && x >= -128 && x <= 127 {
			forms = append(forms, 0x5d)
		}
		if x == math.Trunc(x) && x >= -32768 && x <= 32767 {
			forms = append(forms, 0x5e)
		}
	}
	if x == x && float64(float32(x)) == x {
		forms = append(forms, 0x5f)
	}
	forms = append(forms, 'D')
	switch f := forms[e.choose(len(forms), "double-form")]; f {
	case 0x5b, 0x5c:
		e.W.WriteByte(f)
	case 0x5d:
		e.W.Write([]byte{f, byte(int8(x))})
	case 0x5e:
		i := int16(x)
		e.W.Write([]byte{f, byte(i >> 8), byte(i)})
	case 0x5f:
		b := math.Float32bits(float32(x))
		e.W.Write([]byte{f, byte(b >> 24), byte(b >> 16), byte(b >> 8), byte(b)})
	default:
		e.W.WriteByte('D')
		for s := 56; s >= 0; s -= 8 {
			e.W.WriteByte(byte(bits >> uint(s)))
		}
	}
}

// ---- strings and binaries

// str writes a string in canonical single-chunk form, with form choice for
// names (class, field, type): kept canonical except the final-chunk form.
func (e *Encoder) str(s string) { e.String(s, false) }

// String writes s split into chunks; lengths count characters.
func (e *Encoder) String(s string, split bool) {
	rs := []rune(s)
	n := len(rs)
	// chunk boundaries (in characters)
	var cuts []int
	if split && n > 0 {
		maxk := e.Opt.MaxChunks
		if maxk > n+1 {
			maxk = n + 1
		}
		k := 1 + e.choose(maxk, "string-chunks")
		pos := 0
		for c := 1; c < k; c++ {
			// a non-final chunk of 0..remaining characters (0-length chunks are legal)
			l := e.choose(n-pos+1, "string-cut")
			pos += l
			cuts = append(cuts, pos)
		}
	}
	// split anything that cannot fit one chunk
	start := 0
	emit := func(a, b int, final bool) {
		for b-a > 65535 {
			e.strChunk(rs[a:a+65535], false)
			a += 65535
		}
		e.strChunk(rs[a:b], final)
	}
	for _, c := range cuts {
		emit(start, c, false)
		start = c
	}
	emit(start, n, true)
}

func (e *Encoder) strChunk(rs []rune, final bool) {
	n := len(rs)
	if !final {
		e.W.Write([]byte{'R', byte(n >> 8), byte(n)})
	} else {
		var forms []int
		if n <= 31 {
			forms = append(forms, 0)
		}
		if n <= 1023 {
			forms = append(forms, 1)
		}
		forms = append(forms, 2)
		switch forms[e.choose(len(forms), "string-final-form")] {
		case 0:
			e.W.WriteByte(byte(n))
		case 1:
			e.W.Write([]byte{byte(0x30 + n>>8), byte(n)})
		default:
			e.W.Write([]byte{'S', byte(n >> 8), byte(n)})
		}
	}
	var buf [4]byte
	for _, r := range rs {
		k := utf8.EncodeRune(buf[:], r)
		e.W.Write(buf[:k])
	}
}

func (e *Encoder) Binary(b []byte, static bool) {
	n := len(b)
	var cuts []int
	if n > 0 {
		if !static && e.nclasses >= 3 && e.Opt.BinChunkTag == 'b' {
			// 'b' would be read as an instance of class #2 at an untyped position
			e.AvoidedAmbiguousBinary++
		} else {
			maxk := e.Opt.MaxChunks
			if maxk > n+1 {
				maxk = n + 1
			}
			k := 1 + e.choose(maxk, "binary-chunks")
			pos := 0
			for c := 1; c < k; c++ {
				l := e.choose(n-pos+1, "binary-cut")
				pos += l
				cuts = append(cuts, pos)
			}
		}
	}
	if len(cuts) > 0 && e.nclasses >= 3 && e.Opt.BinChunkTag == 'b' {
		e.AmbiguousBinary++
	}
	start := 0
	emit := func(a, c int, final bool) {
		for c-a > 65535 {
			e.W.Write([]byte{e.Opt.BinChunkTag, 0xff, 0xff})
			e.W.Write(b[a : a+65535])
			a += 65535
		}
		l := c - a
		if !final {
			e.W.Write([]byte{e.Opt.BinChunkTag, byte(l >> 8), byte(l)})
		} else {
			var forms []int
			if l <= 15 {
				forms = append(forms, 0)
			}
			forms = append(forms, 1)
			if l <= 1023 {
				// the two-octet length form of the final grammar (what Java writes for 16..1023 octets)
				forms = append(forms, 2)
			}
			switch forms[e.choose(len(forms), "binary-final-form")] {
			case 0:
				e.W.WriteByte(byte(0x20 + l))
			case 2:
				e.W.Write([]byte{byte(0x34 + l>>8), byte(l)})
			default:
				e.W.Write([]byte{'B', byte(l >> 8), byte(l)})
			}
		}
		e.W.Write(b[a:c])
	}
	for _, c := range cuts {
		emit(start, c, false)
		start = c
	}
	emit(start, n, true)
}

// ---- containers

func (e *Encoder) typeName(t string) {
	// every literal type string takes the next index of the type list
	first := -1
	for i, x := range e.typeList {
		if x == t {
			first = i
			break
		}
	}
	if first >= 0 && e.choose(2, "type-by-ref") == 1 {
		e.Int(int32(first))
		return
	}
	e.typeList = append(e.typeList, t)
	e.str(t)
}

func (e *Encoder) list(v *av.V) {
	e.refs[v] = e.nrefs
	e.nrefs++
	n := len(v.Elems)
	typed := v.Typed
	if typed && v.Static && e.choose(2, "list-drop-type") == 1 {
		typed = false // a statically typed destination does not need the wire type
	}
	var forms []int // 0 compact, 1 counted, 2 variable
	if n <= 7 {
		forms = append(forms, 0)
	}
	forms = append(forms, 1, 2)
	form := forms[e.choose(len(forms), "list-form")]
	switch {
	case typed && form == 0:
		e.W.WriteByte(byte(0x70 + n))
		e.typeName(v.Type)
	case typed && form == 1:
		e.W.WriteByte('V')
		e.typeName(v.Type)
		e.Int(int32(n))
	case typed:
		e.W.WriteByte(0x55)
		e.typeName(v.Type)
	case form == 0:
		e.W.WriteByte(byte(0x78 + n))
	case form == 1:
		e.W.WriteByte(0x58)
		e.Int(int32(n))
	default:
		e.W.WriteByte(0x57)
	}
	for _, x := range v.Elems {
		e.Value(x)
	}
	if form == 2 {
		e.W.WriteByte('Z')
	}
}

func (e *Encoder) mapv(v *av.V) {
	e.refs[v] = e.nrefs
	e.nrefs++
	switch {
	case v.Typed && !(v.Static && e.choose(2, "map-drop-type") == 1):
		e.W.WriteByte('M')
		e.typeName(v.Type)
	case !v.Typed && v.Field && e.chooseKeep(3, "map-add-type") >= 1:
		// a map in a struct field: the Go type decides, any wire type is acceptable - also the empty name some
		// writers send for "no particular type" (it takes a place in the type list like any other name)
		e.W.WriteByte('M')
		if e.last == 2 {
			e.typeName("")
		} else {
			e.typeName("java.util.HashMap")
		}
	default:
		e.W.WriteByte('H')
	}
	for _, x := range v.Elems {
		e.Value(x)
	}
	e.W.WriteByte('Z')
}

func (e *Encoder) object(v *av.V) {
	idx, ok := e.classes[classKey(v.Type, v.Fields)]
	if !ok {
		idx = e.writeClassDef(v.Type, v.Fields)
	}
	e.refs[v] = e.nrefs
	e.nrefs++
	if idx < 16 && !e.Opt.ForceLongObject && e.choose(2, "object-long-form") == 0 {
		e.W.WriteByte(byte(0x60 + idx))
	} else {
		e.W.WriteByte('O')
		e.Int(int32(idx))
	}
	for _, x := range v.Elems {
		e.Value(x)
	}
}
