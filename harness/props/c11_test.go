package props

import (
	"bytes"
	"encoding/hex"
	"fmt"
	"reflect"
	"sort"
	"strings"
	"testing"

	hessian "github.com/vogo/gohessian"
	"pgregory.net/rapid"

	"verif/harness/av"
	"verif/harness/rec"
	"verif/harness/refcodec"
	"verif/harness/vcmp"
	"verif/harness/zoo"
	"verif/harness/zoo/twin"
)

type c11Outcome struct {
	bytes []byte
	value interface{}
	err   string
	isErr bool
}

func errText(err error) (string, bool) {
	if err == nil {
		return "", false
	}
	return err.Error(), true
}

func c11Same(what string, used, fresh c11Outcome) string {
	if used.isErr != fresh.isErr {
		return fmt.Sprintf("%s: used instance returned error %q, fresh instance %q", what, used.err, fresh.err)
	}
	if used.isErr {
		if used.err != fresh.err {
			return fmt.Sprintf("%s: error text differs: used %q, fresh %q", what, used.err, fresh.err)
		}
		return ""
	}
	if used.bytes != nil || fresh.bytes != nil {
		if msg := sameStream(fresh.bytes, used.bytes); msg != "" {
			return what + ": " + msg
		}
	}
	if cerr := vcmp.EqualValues(fresh.value, used.value); cerr != nil {
		return fmt.Sprintf("%s: decoded value differs from a fresh instance's: %v", what, cerr)
	}
	return ""
}

// scribbleBytes flips the first octet of every []byte reachable from v.
func scribbleBytes(v reflect.Value, depth int, seen map[uintptr]bool) {
	if !v.IsValid() || depth > 30 {
		return
	}
	switch v.Kind() {
	case reflect.Interface:
		if !v.IsNil() {
			scribbleBytes(v.Elem(), depth+1, seen)
		}
	case reflect.Ptr:
		if !v.IsNil() && !seen[v.Pointer()] {
			seen[v.Pointer()] = true
			scribbleBytes(v.Elem(), depth+1, seen)
		}
	case reflect.Struct:
		if v.Type() == zoo.TimeType {
			return
		}
		for i := 0; i < v.NumField(); i++ {
			scribbleBytes(v.Field(i), depth+1, seen)
		}
	case reflect.Slice:
		if v.Type().Elem().Kind() == reflect.Uint8 {
			if v.Len() > 0 && v.Index(0).CanSet() {
				v.Index(0).SetUint(uint64(^uint8(v.Index(0).Uint())))
			}
			return
		}
		for i := 0; i < v.Len() && i < 50; i++ {
			scribbleBytes(v.Index(i), depth+1, seen)
		}
	case reflect.Map:
		for it := v.MapRange(); it.Next(); {
			scribbleBytes(it.Value(), depth+1, seen)
		}
	}
}

func clipN2(s string, n int) string {
	if len(s) > n {
		return s[:n] + "..."
	}
	return s
}

func sortedNames(m map[string]string) []string {
	out := make([]string, 0, len(m))
	for k := range m {
		out = append(out, k)
	}
	sort.Strings(out)
	return out
}

func unhex(s string) []byte {
	b, err := hex.DecodeString(strings.ReplaceAll(s, " ", ""))
	if err != nil {
		panic(err)
	}
	return b
}

// c11Leavers: inputs that are refused, or end early, after the decoder has already recorded something about them
// (a type name, a class definition, a container). c11Sensitive[c11Pair[i]] is a message whose decoding would
// change if what leaver i recorded were still there.
var c11Leavers = [][]byte{
	unhex("72 07 5b6e6f73756368 90 91"),    // typed list of the unregistered type "[nosuch"
	unhex("4d 06 6e6f6d617070 0161 91 5a"), // typed map of the unregistered type "nomapp"
	unhex("43 0161 91 0178"),               // class definition, then the end of the input
	unhex("43 0161 91 0178 60"),            // class definition and instance tag, field missing
	unhex("58 92 91"),                      // list of two, one element present
	unhex("48 0161"),                       // map: a key, then the end of the input
	unhex("56 07 5b6e6f73756368 91 90"),    // 'V' typed list of the unregistered type
	unhex("52 0002 6162 90"),               // a non-final string chunk followed by something that is not a chunk
	unhex("58 92 52 0003 787878 4e"),       // the same inside a list
	unhex("62 0001 61 42 0001 62"),         // (a valid message) a binary in the chunk tag of the draft, x62
	unhex("79 62 0002 6162 20"),            // the same inside a list, the final chunk empty
	// an instance of Inner with an unknown field in front, whose value - an instance of a class nobody registered, a
	// typed list of a type nobody registered - ends with the input: refused while a value was being dropped
	unhex("43 05 496e6e6572 92 03 7a7a7a 01 61  60  43 03 782e79 91 01 61  60"),
	unhex("43 05 496e6e6572 92 03 7a7a7a 01 61  60  72 07 5b6e6f73756368 90"),
	unhex("43 05 496e6e6572 92 03 7a7a7a 01 61  60  4d 06 6e6f6d617070 01 61"),
}
var c11Pair = []int{0, 0, 1, 1, 2, 2, 0, 3, 3, 4, 4, 5, 6, 7}
var c11Sensitive = [][]byte{
	unhex("58 92 72 04 5b696e74 90 91 73 90 92 93 94"), // the second typed list names its type by reference #0
	unhex("60 91"), // instance of class #0, no definition in this message
	unhex("51 90"), // reference #0, no container in this message
	unhex("58 92 03 616263 52 0001 64 01 65"), // strings, one of them in two chunks: whatever is left of an earlier string shows
	// three classes and one instance of each in the compact form: x62 is the instance of class #2 here
	unhex("7b 43 03 4b3030 91 0161 60 91  43 03 4b3031 91 0161 61 0178  43 03 4b3032 91 0161 62 e1"),
	// values of types nobody registered, at a place where they are kept: refused by a new instance - and by one
	// that was dropping such a value when its last message ended
	unhex("43 03 782e79 91 01 61  60 91"),
	unhex("72 07 5b6e6f73756368 90 91"),
	unhex("4d 06 6e6f6d617070 01 61 91 5a"),
}

func TestC11(t *testing.T) {
	r := rec.For("C11")
	// witness of a repaired defect: an instance without names that has written a struct type must not take a map
	// or slice type of the same (unqualified) name for a typed one afterwards
	for i, pair := range [][2]interface{}{
		{&twin.PlainMap{A: 1}, zoo.PlainMap{"a": 1}},
		{twin.Bag{A: 2}, zoo.Bag{int32(1), "x"}},
		{[]interface{}{&twin.PlainMap{A: 1}, &twin.Bag{A: 3}}, &zoo.Bags{B: zoo.Bag{"y"}}},
	} {
		fresh, err0 := hessian.NewSerializer(nil, nil).ToBytes(pair[1])
		s := hessian.NewSerializer(nil, nil)
		_, err1 := s.ToBytes(pair[0])
		used, err2 := s.ToBytes(pair[1])
		e := hessian.NewEncoder(nil, nil)
		e.Encode(pair[0])
		used2, err3 := e.Encode(pair[1])
		if err0 != nil || err1 != nil || err2 != nil || err3 != nil || !bytes.Equal(fresh, used) || !bytes.Equal(fresh, used2) {
			directFail(t, "C11", map[string]interface{}{"case": i, "fresh": hexClip(fresh, 200), "used": hexClip(used, 200)},
				"C11 an instance without names encodes %T after %T differently from a new one: %x / %x (Encoder %x) %v %v %v %v", pair[1], pair[0], fresh, used, used2, err0, err1, err2, err3)
		}
		r.Eval()
		r.NonTrivial(av.Hash(fmt.Sprintf("same-name/%d", i)))
		r.Label("struct type, then a map or slice type of the same unqualified name, on an instance without names")
	}
	cfg := zoo.DefaultCfg()
	cfg.MaxBig, cfg.Budget, cfg.NoBigStrings = 20, 120, true
	garbage := c14Small()
	check(t, "C11", func(rt *rapid.T, c *caseInfo) {
		kind := rapid.SampledFrom([]string{"Serializer", "Encoder", "Decoder", "Package"}).Draw(rt, "instance")
		nv := rapid.IntRange(2, 6).Draw(rt, "nvalues")
		vals := make([]interface{}, 0, nv)
		descs := make([]string, 0, nv)
		for i := 0; i < nv; i++ {
			g := zoo.NewG(rt, cfg)
			v, shape := g.Top()
			if _, perr := zoo.Project(v, nil); perr != nil {
				continue
			}
			vals = append(vals, v)
			descs = append(descs, shape+" "+zoo.Describe(v, 100))
		}
		// values whose effect on an instance is easy to miss: nothing but empty containers (they take ordinals but
		// leave no entry behind), the same pointer twice (back-references), strings and doubles (scratch buffers)
		if rapid.Bool().Draw(rt, "withSpecials") {
			in := &zoo.Inner{A: 3, S: "twice"}
			for _, sp := range []interface{}{
				[]string{}, &zoo.SlStr{L: []string{}}, []interface{}{},
				&zoo.SlPtr{L: []*zoo.Inner{in, in, nil, in}}, []interface{}{in, "s", in},
				&zoo.StrCarrier{S: "first string", L: []string{"second", "third"}}, &zoo.FloatFields{F64: 0.1, L64: []float64{2.5, 0.3}},
				&zoo.PtrNamed{A: 1}, zoo.PtrNamed{A: 2}, []zoo.PtrNamed{{A: 3}}, []interface{}{&zoo.Inner{A: 4}, []*zoo.Inner{{A: 5}}},
			} {
				if rapid.Bool().Draw(rt, "special") {
					vals = append(vals, sp)
					descs = append(descs, "special "+zoo.Describe(sp, 100))
				}
			}
		}
		// two messages of more than 16 classes each, overlapping, in different orders (class tables that
		// outgrow the short instance tags)
		if rapid.IntRange(0, 3).Draw(rt, "withManyClasses") == 0 {
			for k := 0; k < 2; k++ {
				start := rapid.IntRange(0, 12).Draw(rt, "classesFrom")
				cnt := rapid.IntRange(17, 24).Draw(rt, "classCount")
				idx := make([]int, cnt)
				for i := range idx {
					idx[i] = start + i
				}
				idx = rapid.Permutation(idx).Draw(rt, "classOrder")
				l := make([]interface{}, 0, cnt+2)
				for _, i := range idx {
					p := reflect.New(zoo.QTypes[i])
					p.Elem().Field(0).SetInt(int64(i))
					l = append(l, p.Interface())
				}
				l = append(l, l[0], l[cnt/2])
				vals = append(vals, l)
				descs = append(descs, fmt.Sprintf("special %d classes from Q%03d in order %v", cnt, start, idx))
			}
		}
		if len(vals) < 2 {
			rt.Skip("too few values")
		}
		tm, nm := hessian.ExtractTypeNameMap(vals)
		// a quarter of the Serializers and Encoders work without any names (an empty name map: classes travel
		// under their Go names, lists untyped; the instance enters what it learns into its map, which must not
		// make it behave differently from a new one)
		noNames := (kind == "Serializer" || kind == "Encoder") && rapid.IntRange(0, 3).Draw(rt, "withoutNames") == 0
		// a list of strings that goes by the name of a Java set class
		if !noNames && rapid.IntRange(0, 3).Draw(rt, "stringListAsSet") == 0 {
			vals = append(vals, []string{"red", "red", "green", "blue", "green"})
			descs = append(descs, "special []string named java.util.HashSet")
			nm["[]string"] = "java.util.HashSet"
			tm["java.util.HashSet"] = reflect.TypeOf([]string{})
		}
		// two Go types that go by one class name: what an instance remembers about a class by its name (field lists,
		// field kinds, definitions) belongs to the type it was remembered for
		if !noNames && rapid.IntRange(0, 3).Draw(rt, "twoTypesOneClassName") == 0 {
			a1 := &zoo.AcctV1{ID: 7, Name: "ann", Note: "first"}
			a2 := &zoo.AcctV2{Name: "bob", ID: 1 << 40, Tags: []string{"x"}}
			vals = append(vals, a1, a2, []interface{}{a2, a1, a2}, zoo.AcctV2{Name: "by value", ID: -5})
			descs = append(descs, "special AcctV1 as com.bank.Account", "special AcctV2 as com.bank.Account", "special both in one list", "special AcctV2 by value")
			for k, v := range zoo.OneClassName() {
				nm[k] = v
			}
			tm["com.bank.Account"] = reflect.TypeOf(zoo.AcctV1{})
		}
		fullNM := nm // the messages to be decoded come from a peer that uses every name
		if noNames {
			nm = map[string]string{}
		}
		// reference encodings (fresh instance each) of every value
		enc := make([][]byte, len(vals))
		for i, v := range vals {
			a0, _ := zoo.Project(v, nil)
			before := av.Canon(a0, av.Options{})
			b, err := hessian.ToBytes(v, copyNames(fullNM))
			if err != nil {
				rt.Skip("value does not encode (C01's subject)")
			}
			if a1, _ := zoo.Project(v, nil); av.Canon(a1, av.Options{}) != before {
				failf(rt, c, "C11: ToBytes modified the value being encoded (%s): it was %s", descs[i], clipN2(before, 300))
			}
			enc[i] = b
		}
		// every other valid input in a non-canonical but legal rendering
		for i, v := range vals {
			if i%2 == 1 {
				if a, perr := zoo.Project(v, nm); perr == nil {
					// (binaries in the chunk tag of the final specification or of the draft the library also reads)
					alt := refcodec.Encode(a, rapidChoices{rt}, refcodec.EncOptions{HoistAnywhere: true, MaxPadding: 2, MaxChunks: 3, BinChunkTag: rapid.SampledFrom([]byte{'A', 'b'}).Draw(rt, "binaryChunkTag")})
					if o1, e1 := hessian.ToObject(alt, tm); e1 == nil {
						if o0, e0 := hessian.ToObject(enc[i], tm); e0 == nil && vcmp.EqualValues(o0, o1) == nil {
							enc[i] = alt
						}
					}
				}
			}
		}
		// entries held back from the instance's maps, to be registered through its Register* methods
		// in the course of the history (an Encoder / Decoder starts with incomplete maps half of the time)
		pendingNames := map[string]string{}
		pendingTypes := map[string]reflect.Type{}
		if !noNames && (kind == "Encoder" || kind == "Decoder") && rapid.Bool().Draw(rt, "startIncomplete") {
			for k, v := range nm {
				if strings.HasPrefix(k, "[]") {
					pendingNames[k] = v
					delete(nm, k)
				}
			}
			if kind == "Decoder" {
				for _, k := range mapKeys(tm) {
					v := tm[k]
					if v.Kind() == reflect.Struct && rapid.Bool().Draw(rt, "holdBackType") {
						pendingTypes[k] = v
						delete(tm, k)
					}
				}
			}
		}
		// (the three classes of the last of c11Sensitive are always known)
		tm["K00"], tm["K01"], tm["K02"] = reflect.TypeOf(zoo.K00{}), reflect.TypeOf(zoo.K01{}), reflect.TypeOf(zoo.K02{})
		// an entry nobody needs, registered through a pointer type: the map is the caller's all the same
		if rapid.IntRange(0, 3).Draw(rt, "pointerTypedEntry") == 0 {
			tm["unused.PointerEntry"] = reflect.TypeOf(&zoo.Inner{})
		}
		// the maps the instance works with at the moment (RegisterNameMap / RegisterTypeMap replace them)
		instNM, instTM := nm, tm
		replacedMaps := false
		// maps handed to the instance later on, with what they must hold at the end (what they held when handed
		// over plus what was registered since): they are caller-supplied maps too
		var handedNM, handedNMModel map[string]string
		var handedTM, handedTMModel map[string]reflect.Type
		nmBefore := copyNames(nm)
		tmBefore := map[string]reflect.Type{}
		for k, v := range tm {
			tmBefore[k] = v
		}
		var ser hessian.Serializer
		var e *hessian.Encoder
		var d *hessian.Decoder
		switch kind {
		case "Serializer":
			ser = hessian.NewSerializer(tm, nm)
		case "Encoder":
			e = hessian.NewEncoder(nil, nm)
		case "Decoder":
			d = hessian.NewDecoder(nil, tm)
		}
		// one reader object whose content is replaced between one-shot ReadFrom calls
		// (the pooled usage of the repository's own benchmark)
		shared := &countingReader{}
		// results handed out by earlier calls (encoded bytes, decoded values) with a snapshot of what
		// they were: using the instance again must not change them
		type held struct {
			what  string
			bytes []byte
			copyB []byte
			value interface{}
			canon string
		}
		var helds []held
		holdBytes := func(what string, b []byte) {
			if len(helds) < 6 && b != nil {
				helds = append(helds, held{what: what, bytes: b, copyB: append([]byte{}, b...)})
			}
		}
		holdValue := func(what string, v interface{}) {
			if len(helds) < 6 && v != nil {
				a, _ := zoo.Project(v, nil)
				helds = append(helds, held{what: what, value: v, canon: av.Canon(a, av.Options{})})
			}
		}
		var hist []string
		kinds := map[string]bool{}
		lastType := ""
		pickV := func() int { return rapid.IntRange(0, len(vals)-1).Draw(rt, "value") }
		note := func(s string, vi int) {
			hist = append(hist, fmt.Sprintf("%s(#%d)", s, vi))
			kinds[s] = true
			if vi >= 0 {
				lastType = fmt.Sprintf("%T", vals[vi])
			}
		}
		bad := func() interface{} {
			u := unsupportedValue(rapid.SampledFrom([]string{"chan", "func", "complex128", "uintptr"}).Draw(rt, "bad"))
			if rapid.IntRange(0, 5).Draw(rt, "badDeep") == 0 {
				// the refused value sits hundreds of containers deep
				var v interface{} = u
				for i := 0; i < 600; i++ {
					if i%2 == 0 {
						v = []interface{}{v}
					} else {
						v = map[string]interface{}{"k": v}
					}
				}
				return v
			}
			return []interface{}{int32(1), u, "x"}
		}
		lastLeaver := -1
		garb := func() []byte {
			switch rapid.IntRange(0, 3).Draw(rt, "garbageKind") {
			case 3:
				lastLeaver = rapid.IntRange(0, len(c11Leavers)-1).Draw(rt, "leaver")
				return c11Leavers[lastLeaver]
			case 0:
				return garbage[rapid.IntRange(0, len(garbage)-1).Draw(rt, "garbage")]
			case 1:
				b := enc[pickV()]
				return b[:rapid.IntRange(0, len(b)).Draw(rt, "cut")]
			default:
				b := append([]byte{}, enc[pickV()]...)
				if len(b) > 0 {
					b[rapid.IntRange(0, len(b)-1).Draw(rt, "flipAt")] ^= byte(1 << uint(rapid.IntRange(0, 7).Draw(rt, "bit")))
				}
				return b
			}
		}
		snapshot := func(v interface{}) string {
			a, _ := zoo.Project(v, nil)
			return av.Canon(a, av.Options{})
		}
		step := func() {
			act := rapid.IntRange(0, 7).Draw(rt, "action")
			pv, st := guard(func() {
				switch {
				case act == 0: // one-shot encode, succeeds
					vi := pickV()
					before := snapshot(vals[vi])
					switch kind {
					case "Serializer":
						b, _ := ser.ToBytes(vals[vi])
						holdBytes(fmt.Sprintf("bytes of encode #%d", len(hist)), b)
					case "Encoder":
						b, _ := e.Encode(vals[vi])
						holdBytes(fmt.Sprintf("bytes of encode #%d", len(hist)), b)
					case "Package":
						// the package-level one-shot function, with the caller's map or with none
						var m map[string]string
						if rapid.Bool().Draw(rt, "withNameMap") {
							m = nm
						}
						b, _ := hessian.ToBytes(vals[vi], m)
						holdBytes(fmt.Sprintf("bytes of ToBytes #%d", len(hist)), b)
					default:
						return
					}
					if snapshot(vals[vi]) != before {
						failf(rt, c, "C11 %s: encoding modified the value being encoded (%s)", kind, descs[vi])
					}
					note("encode-ok", vi)
				case act == 1: // one-shot encode that fails: unsupported value / failing writer
					switch kind {
					case "Serializer":
						if rapid.Bool().Draw(rt, "failWriter") {
							ser.WriteTo(&faultWriter{k: rapid.IntRange(1, 12).Draw(rt, "failAt"), mode: rapid.IntRange(0, c15Modes-1).Draw(rt, "failMode")}, vals[pickV()])
						} else {
							ser.ToBytes(bad())
						}
					case "Encoder":
						if rapid.Bool().Draw(rt, "failWriter") {
							e.WriteTo(&faultWriter{k: rapid.IntRange(1, 12).Draw(rt, "failAt"), mode: rapid.IntRange(0, c15Modes-1).Draw(rt, "failMode")}, vals[pickV()])
						} else {
							e.Encode(bad())
						}
					case "Package":
						hessian.ToBytes(bad(), nm)
					default:
						return
					}
					note("encode-fail", -1)
				case act == 2: // one-shot decode of valid bytes
					vi := pickV()
					in := append([]byte{}, enc[vi]...)
					viaShared := rapid.Bool().Draw(rt, "viaSharedReader")
					switch {
					case kind == "Serializer" && viaShared:
						shared.b, shared.pos = in, 0
						ser.ReadFrom(shared)
					case kind == "Serializer":
						o, _ := ser.ToObject(in)
						// (what the caller does to the value it was handed is its own business: the input must not feel it)
						scribbleBytes(reflect.ValueOf(o), 0, map[uintptr]bool{})
						holdValue(fmt.Sprintf("value of decode #%d", len(hist)), o)
					case kind == "Decoder" && viaShared:
						shared.b, shared.pos = in, 0
						d.ReadFrom(shared)
					case kind == "Decoder":
						o, _ := d.Decode(in)
						// (what the caller does to the value it was handed is its own business: the input must not feel it)
						scribbleBytes(reflect.ValueOf(o), 0, map[uintptr]bool{})
						holdValue(fmt.Sprintf("value of decode #%d", len(hist)), o)
					case kind == "Package":
						o, _ := hessian.ToObject(in, tm)
						// (what the caller does to the value it was handed is its own business: the input must not feel it)
						scribbleBytes(reflect.ValueOf(o), 0, map[uintptr]bool{})
						holdValue(fmt.Sprintf("value of ToObject #%d", len(hist)), o)
					default:
						return
					}
					if !bytes.Equal(in, enc[vi]) {
						failf(rt, c, "C11 %s: decoding modified the bytes being decoded, or the decoded value shares memory with them (a []byte of the result was written to)", kind)
					}
					note("decode-ok", vi)
				case act == 3: // decode of garbage
					in := garb()
					keep := append([]byte{}, in...)
					switch kind {
					case "Serializer":
						ser.ToObject(in)
					case "Decoder":
						d.Decode(in)
					case "Package":
						var m map[string]reflect.Type
						if rapid.Bool().Draw(rt, "withTypeMap") {
							m = tm
						}
						hessian.ToObject(in, m)
					default:
						return
					}
					if !bytes.Equal(in, keep) {
						failf(rt, c, "C11 %s: decoding modified the bytes being decoded", kind)
					}
					note("decode-garbage", -1)
				case act == 4: // streaming write of 1..3 values
					var buf bytes.Buffer
					n := rapid.IntRange(1, 3).Draw(rt, "streamN")
					for i := 0; i < n; i++ {
						vi := pickV()
						switch {
						case kind == "Serializer" && i == 0:
							ser.WriteTo(&buf, vals[vi])
						case kind == "Serializer":
							ser.Write(vals[vi])
						case kind == "Encoder" && i == 0:
							e.WriteTo(&buf, vals[vi])
						case kind == "Encoder":
							e.WriteObject(vals[vi])
						default:
							return
						}
						note("stream-write", vi)
					}
				case act == 5: // streaming read of 1..3 values
					var buf bytes.Buffer
					n := rapid.IntRange(1, 3).Draw(rt, "streamN")
					last := 0
					fe := hessian.NewEncoder(&buf, copyNames(nm))
					for i := 0; i < n; i++ {
						last = pickV()
						fe.WriteObject(vals[last])
					}
					rd := &countingReader{b: buf.Bytes()}
					for i := 0; i < n; i++ {
						switch {
						case kind == "Serializer" && i == 0:
							ser.ReadFrom(rd)
						case kind == "Serializer":
							ser.Read()
						case kind == "Decoder" && i == 0:
							d.ReadFrom(rd)
						case kind == "Decoder":
							d.ReadObject()
						default:
							return
						}
					}
					note("stream-read", last)
				case act == 6 && kind == "Encoder" && !noNames && rapid.IntRange(0, 2).Draw(rt, "renameClass") == 0:
					// every class the encoder may have written already gets another wire name (new versions of the peer's
					// classes): from now on it travels under that name, as it would from a new encoder with this map
					for _, k := range sortedNames(instNM) {
						if t, ok := tm[instNM[k]]; ok && t.Kind() == reflect.Struct && !strings.HasSuffix(instNM[k], ".v2") {
							v2 := instNM[k] + ".v2"
							e.RegisterNameType(k, v2)
							if replacedMaps {
								instNM[k] = v2
								handedNMModel[k] = v2
							} else {
								nmBefore[k] = v2
							}
						}
					}
					note("rename-classes", -1)
				case act == 6 && (len(pendingNames) > 0 || len(pendingTypes) > 0):
					// register one of the entries held back (the instance's map is the caller's map)
					if kind == "Encoder" {
						for _, k := range sortedNames(pendingNames) {
							v := pendingNames[k]
							e.RegisterNameType(k, v)
							if replacedMaps {
								instNM[k] = v // (the instance's map is a copy made by this test: keep the model of it in step)
								handedNMModel[k] = v
							} else {
								nmBefore[k] = v
							}
							delete(pendingNames, k)
							break
						}
					} else {
						for _, k := range mapKeys(pendingTypes) {
							v := pendingTypes[k]
							if rapid.Bool().Draw(rt, "registerVal") {
								d.RegisterVal(k, reflect.Zero(v).Interface())
							} else {
								d.RegisterType(k, v)
							}
							if replacedMaps {
								instTM[k] = v
								handedTMModel[k] = v
							} else {
								tmBefore[k] = v
							}
							delete(pendingTypes, k)
							break
						}
					}
					note("register", -1)
				case act == 7 && !noNames && (kind == "Encoder" || kind == "Decoder") && rapid.Bool().Draw(rt, "replaceMaps"):
					// the instance is given other maps: the caller's earlier maps are no longer its business
					if kind == "Encoder" {
						nm2 := copyNames(instNM)
						nm2["unused.Name"] = "unused.WireName"
						// (the new map stays complete: an encoder enters a class it does not find into its map, which
						// it may do to a map that lacks it)
						handedNM, handedNMModel = nm2, copyNames(nm2)
						e.RegisterNameMap(nm2)
						instNM = nm2
					} else {
						tm2 := map[string]reflect.Type{}
						for k, v := range instTM {
							tm2[k] = v
						}
						tm2["unused.OtherEntry"] = reflect.TypeOf(&zoo.K00{})
						delete(tm2, "unused.PointerEntry") // an entry the instance has and the new map lacks
						handedTM, handedTMModel = tm2, map[string]reflect.Type{}
						for k, v := range tm2 {
							handedTMModel[k] = v
						}
						d.RegisterTypeMap(tm2)
						instTM = tm2
					}
					replacedMaps = true
					note("replace-maps", -1)
				default: // Reset
					switch kind {
					case "Encoder":
						e.Reset(&bytes.Buffer{})
					case "Decoder":
						d.Reset(&countingReader{})
					default:
						return
					}
					note("reset", -1)
				}
			})
			if pv != nil {
				if strings.HasPrefix(fmt.Sprintf("%T", pv), "rapid.") {
					panic(pv)
				}
				failf(rt, c, "C11 %s: a call panicked during the history %v: %v [%s]", kind, hist, pv, st)
			}
		}
		steps := rapid.IntRange(0, 30).Draw(rt, "historyLen")
		for i := 0; i < steps; i++ {
			step()
		}
		c.set("instance", kind)
		c.set("history", hist)
		c.set("values", descs)
		r.Current(fmt.Sprintf("C11 %s %v", kind, hist))
		// ---- probe: the used instance against a fresh one with the same maps
		pi, qi := pickV(), pickV()
		var q []byte
		switch {
		case lastLeaver >= 0 && rapid.Bool().Draw(rt, "probeSensitive"):
			// the message that would read differently if the refused one had left something behind
			q = c11Sensitive[c11Pair[lastLeaver]]
		case rapid.IntRange(0, 3).Draw(rt, "probeGarbage") == 0:
			q = garb()
		default:
			q = enc[qi]
		}
		var used, fresh c11Outcome
		probeEnc := func(f func() ([]byte, error)) c11Outcome {
			var o c11Outcome
			var err error
			if pv, _ := guard(func() { o.bytes, err = f() }); pv != nil {
				o.err, o.isErr = fmt.Sprint("panic: ", pv), true
				return o
			}
			o.err, o.isErr = errText(err)
			return o
		}
		probeDec := func(f func() (interface{}, error)) c11Outcome {
			var o c11Outcome
			var err error
			if pv, _ := guard(func() { o.value, err = f() }); pv != nil {
				o.err, o.isErr = fmt.Sprint("panic: ", pv), true
				return o
			}
			o.err, o.isErr = errText(err)
			return o
		}
		var msgs []string
		if kind != "Decoder" {
			pnm := instNM
			switch kind {
			case "Serializer":
				used = probeEnc(func() ([]byte, error) { return ser.ToBytes(vals[pi]) })
			case "Package":
				if rapid.Bool().Draw(rt, "probeWithoutNameMap") {
					pnm = nil // a call without a map after calls with one
				}
				used = probeEnc(func() ([]byte, error) { return hessian.ToBytes(vals[pi], copyNames(pnm)) })
			default:
				used = probeEnc(func() ([]byte, error) { return e.Encode(vals[pi]) })
			}
			fresh = probeEnc(func() ([]byte, error) {
				if noNames {
					return hessian.NewSerializer(tm, map[string]string{}).ToBytes(vals[pi])
				}
				return hessian.NewSerializer(tm, copyNames(pnm)).ToBytes(vals[pi])
			})
			if m := c11Same("probe encode of "+descs[pi], used, fresh); m != "" {
				msgs = append(msgs, m)
			}
		}
		if kind != "Encoder" {
			probeShared := rapid.Bool().Draw(rt, "probeViaSharedReader")
			ptm := instTM
			switch {
			case kind == "Package":
				if rapid.IntRange(0, 3).Draw(rt, "probeWithoutTypeMap") == 0 {
					ptm = nil // a call without a map after calls with one: must not know the earlier caller's classes
				}
				used = probeDec(func() (interface{}, error) { return hessian.ToObject(q, ptm) })
			case kind == "Serializer" && probeShared:
				shared.b, shared.pos = q, 0
				used = probeDec(func() (interface{}, error) { return ser.ReadFrom(shared) })
			case kind == "Serializer":
				used = probeDec(func() (interface{}, error) { return ser.ToObject(q) })
			case probeShared:
				shared.b, shared.pos = q, 0
				used = probeDec(func() (interface{}, error) { return d.ReadFrom(shared) })
			default:
				used = probeDec(func() (interface{}, error) { return d.Decode(q) })
			}
			fresh = probeDec(func() (interface{}, error) { return hessian.NewSerializer(ptm, nm).ToObject(q) })
			if used.isErr && fresh.isErr && used.err != fresh.err {
				// which of several offending entries of a map is reported first follows Go's map
				// iteration order: the text is only comparable if fresh instances agree among themselves
				texts := map[string]bool{fresh.err: true}
				for i := 0; i < 12; i++ {
					f := probeDec(func() (interface{}, error) { return hessian.NewSerializer(ptm, nm).ToObject(q) })
					texts[f.err] = true
				}
				if texts[used.err] || len(texts) > 1 {
					fresh.err = used.err // fresh instances do not agree among themselves: text not comparable
				}
			}
			if m := c11Same(fmt.Sprintf("probe decode of %s", hexClip(q, 40)), used, fresh); m != "" {
				msgs = append(msgs, m)
			}
		}
		r.Eval()
		if len(kinds) >= 2 && lastType != fmt.Sprintf("%T", vals[pi]) {
			r.NonTrivial(av.Hash(kind + fmt.Sprint(hist, descs, pi, qi)))
		}
		r.Label("instance:" + kind)
		r.Label("history:" + bucket(len(hist)))
		for k := range kinds {
			r.Label("action:" + k)
		}
		r.Sample(func() interface{} {
			return map[string]interface{}{"instance": kind, "history": hist, "probe_value": descs[pi], "probe_bytes": hexClip(q, 40)}
		})
		if len(msgs) > 0 {
			failf(rt, c, "C11 %s after history %v: %s\n values: %v", kind, hist, strings.Join(msgs, "; "), descs)
		}
		for _, h := range helds {
			if h.bytes != nil && !bytes.Equal(h.bytes, h.copyB) {
				failf(rt, c, "C11 %s: the %s, handed to the caller earlier, changed when the instance was used again; history %v", kind, h.what, hist)
			}
			if h.value != nil {
				a, _ := zoo.Project(h.value, nil)
				if av.Canon(a, av.Options{}) != h.canon {
					failf(rt, c, "C11 %s: the %s, handed to the caller earlier, changed when the instance was used again; history %v", kind, h.what, hist)
				}
			}
		}
		if noNames {
			r.Label("instance works without names")
		}
		if handedNM != nil && !reflect.DeepEqual(handedNM, handedNMModel) {
			failf(rt, c, "C11 %s: the name map handed over with RegisterNameMap was modified behind the caller's back; history %v", kind, hist)
		}
		if handedTM != nil && !reflect.DeepEqual(handedTM, handedTMModel) {
			failf(rt, c, "C11 %s: the type map handed over with RegisterTypeMap was modified behind the caller's back (has %v); history %v", kind, mapKeys(handedTM), hist)
		}
		if !noNames && !reflect.DeepEqual(nm, nmBefore) {
			failf(rt, c, "C11 %s: the complete caller-supplied name map was modified; history %v", kind, hist)
		}
		if !reflect.DeepEqual(tm, tmBefore) {
			failf(rt, c, "C11 %s: the caller-supplied type map was modified; history %v", kind, hist)
		}
	})
}
