package props

import (
	"fmt"
	"reflect"
	"strings"
	"testing"

	hessian "github.com/vogo/gohessian"
	"pgregory.net/rapid"

	"verif/harness/av"
	"verif/harness/rec"
	"verif/harness/vcmp"
	"verif/harness/zoo"
)

// nontrivialValue: the value contains at least one container or struct with
// non-null content.
func nontrivialValue(a *av.V) bool {
	nt := false
	av.Walk(a, func(x *av.V) {
		if x.IsContainer() {
			for _, e := range x.Elems {
				if e.K != av.Null {
					nt = true
				}
			}
		}
	})
	return nt
}

// roundTrip is the C01 oracle on one value: encode with the name map extracted
// from it, decode with the type map extracted from it, compare with vcmp.
func roundTrip(v interface{}) (stage string, err error, bytes []byte) {
	var tm map[string]reflect.Type
	var nm map[string]string
	if pv, st := guard(func() { tm, nm = hessian.ExtractTypeNameMap(v) }); pv != nil {
		return "extract", fmt.Errorf("panic in ExtractTypeNameMap: %v [%s]", pv, st), nil
	}
	var out interface{}
	if pv, st := guard(func() { bytes, err = hessian.ToBytes(v, nm) }); pv != nil {
		return "encode", fmt.Errorf("panic in ToBytes: %v [%s]", pv, st), nil
	}
	if err != nil {
		return "encode", fmt.Errorf("ToBytes failed: %v", err), nil
	}
	if pv, st := guard(func() { out, err = hessian.ToObject(bytes, tm) }); pv != nil {
		return "decode", fmt.Errorf("panic in ToObject: %v [%s]", pv, st), bytes
	}
	if err != nil {
		return "decode", fmt.Errorf("ToObject failed: %v", err), bytes
	}
	if err := vcmp.Equal(v, out, nm); err != nil {
		return "compare", err, bytes
	}
	// same through a Serializer instance
	var bytes2 []byte
	var out2 interface{}
	if pv, st := guard(func() {
		s := hessian.NewSerializer(tm, nm)
		bytes2, err = s.ToBytes(v)
		if err == nil {
			out2, err = s.ToObject(bytes2)
		}
	}); pv != nil {
		return "serializer", fmt.Errorf("panic in Serializer: %v [%s]", pv, st), bytes
	}
	if err != nil {
		return "serializer", fmt.Errorf("Serializer round trip failed: %v", err), bytes
	}
	if err := vcmp.Equal(v, out2, nm); err != nil {
		return "serializer-compare", err, bytes2
	}
	return "", nil, bytes
}

func c01Cfg() zoo.Cfg {
	cfg := zoo.DefaultCfg()
	cfg.Avoid = map[string]bool{}
	for _, e := range openEntries("C01") {
		cfg.Avoid[e.Shape] = true
	}
	return cfg
}

func TestC01(t *testing.T) {
	r := rec.For("C01")
	for _, rc := range c01Regression() {
		r.Eval()
		if stage, err, b := roundTrip(rc.v); err != nil {
			rec.WriteFailure(rec.Failure{Prop: "C01", Test: t.Name(), Kind: "direct", Message: fmt.Sprintf("regression case %s: %s: %v", rc.name, stage, err), Case: map[string]interface{}{"regression": rc.name, "bytes": hexClip(b, 200)}})
			t.Fatalf("regression case %s: stage %s: %v", rc.name, stage, err)
		}
		r.Label("regression")
	}
	// witness of a repaired defect: a pointer to the first field of the struct that holds it (same address and kind,
	// another type) was written as a reference to that struct. Interior pointers are not generated and the
	// comparator has no notion of them: the content is checked directly (the field and the pointer's target come
	// back equal, whether or not they are one object again).
	{
		interior := &zoo.OutFirst{In: zoo.InFirst{X: 5}}
		interior.P = &interior.In
		tm, nm := hessian.ExtractTypeNameMap(interior)
		var out interface{}
		var err error
		var b []byte
		pv, _ := guard(func() {
			if b, err = hessian.ToBytes(interior, nm); err == nil {
				out, err = hessian.ToObject(b, tm)
			}
		})
		o, _ := out.(*zoo.OutFirst)
		if pv != nil || err != nil || o == nil || o.In.X != 5 || o.P == nil || o.P.X != 5 {
			directFail(t, "C01", map[string]interface{}{"regression": "pointer-to-the-first-field-of-the-enclosing-struct", "bytes": hexClip(b, 200)},
				"C01 a struct holding a pointer to its own first field: %v %v, result %s", err, pv, zoo.Describe(out, 200))
		}
		r.Eval()
	}
	cfg := c01Cfg()
	check(t, "C01", func(rt *rapid.T, c *caseInfo) {
		g := zoo.NewG(rt, cfg)
		v, shape := g.Top()
		a, perr := zoo.Project(v, nil)
		if perr != nil {
			rt.Skip("unrepresentable")
		}
		desc := zoo.Describe(v, 600)
		c.set("shape", shape)
		c.set("value", desc)
		r.Current("C01 " + shape + " " + desc)
		r.Eval()
		stage, err, b := roundTrip(v)
		r.Label("shape:" + shape[:indexOrLen(shape, ':')])
		r.Labels(g.Labels)
		r.ExcludedMap(g.Avoided)
		if nontrivialValue(a) {
			r.NonTrivial(av.Hash(shape + av.Canon(a, av.Options{})))
		}
		r.Sample(func() interface{} {
			return map[string]interface{}{"shape": shape, "value": desc, "bytes": hexClip(b, 80)}
		})
		if err != nil {
			c.set("bytes", hexClip(b, 400))
			c.set("stage", stage)
			failf(rt, c, "C01 %s: stage %s: %v\n value: %s", shape, stage, err, desc)
		}
	})
}

func indexOrLen(s string, b byte) int {
	for i := 0; i < len(s); i++ {
		if s[i] == b {
			return i
		}
	}
	return len(s)
}

type regCase struct {
	name string
	v    interface{}
}

// c01Regression: the fixed corpus (inputs named by the property text and
// witnesses of repaired defects), run first by both tiers.
func c01Regression() []regCase {
	long := make([]int32, 256)
	for i := range long {
		long[i] = int32(i)
	}
	big := make([]int32, 1500)
	bigAny := make([]interface{}, 1025)
	bigPtr := make([]*zoo.Inner, 1030)
	bigStr := make([]string, 1025)
	for i := range big {
		big[i] = int32(i * 7)
	}
	for i := range bigAny {
		bigAny[i] = int32(i)
		if i%5 == 0 {
			bigAny[i] = "s"
		}
	}
	for i := range bigPtr {
		if i%3 != 0 {
			bigPtr[i] = &zoo.Inner{A: int32(i), S: "p"}
		}
	}
	for i := range bigStr {
		if i%4 != 0 {
			bigStr[i] = "x"
		}
	}
	exact := func(n int) []int32 {
		l := make([]int32, n)
		for i := range l {
			l[i] = int32(i + 1)
		}
		return l
	}
	anyN := func(n int) []interface{} {
		l := make([]interface{}, n)
		for i := range l {
			l[i] = int32(i + 1)
		}
		return l
	}
	// counts and reference ordinals beyond the two- and three-octet number forms (65535 / 65536 elements, reference
	// ordinals on either side of 2047 and of 262143): the header or the ordinal then travels in a wider form
	wide := func(n int) []int32 {
		l := make([]int32, n)
		for i := range l {
			l[i] = int32(i) - 40000
		}
		return l
	}
	manyObjs := func(n int, again ...int) []interface{} {
		l := make([]interface{}, 0, n+len(again))
		for i := 0; i < n; i++ {
			l = append(l, &zoo.K00{A: int32(i)})
		}
		for _, k := range again {
			l = append(l, l[k])
		}
		return l
	}
	bigMap := map[int32]int32{}
	for i := 0; i < 66000; i++ {
		bigMap[int32(i)] = int32(-i)
	}
	return []regCase{
		{"typed-lists-of-65535-65536-70000-elements", []interface{}{wide(65535), "a", wide(65536), "b", wide(70000), "tail"}},
		{"untyped-list-of-65536-elements-in-a-field", &zoo.AnyList{L: anyN(65536)}},
		{"map-of-66000-entries", bigMap},
		{"reference-ordinals-around-2047", manyObjs(2100, 2044, 2045, 2046, 2047, 2048, 0, 2099)},
		{"reference-ordinals-around-65535", manyObjs(65600, 65533, 65534, 65535, 65536, 65599)},
		{"reference-ordinals-around-262143", manyObjs(262200, 262140, 262141, 262142, 262143, 262144, 262199, 1)},
		// the library's own thresholds met exactly, each followed by further values
		{"typed-list-of-exactly-64", &zoo.Slices{I32: exact(64), I64: []int64{1, 2}}},
		{"typed-lists-of-63-64-65", []interface{}{exact(63), exact(64), exact(65), "tail"}},
		{"untyped-lists-of-63-64-65", []interface{}{anyN(63), anyN(64), anyN(65), "tail"}},
		{"strings-of-2048-4096-6144-characters-followed-by-values", []interface{}{strings.Repeat("a", 2048), int32(1), strings.Repeat("é", 4096), "x", strings.Repeat("b", 6144), "tail"}},
		{"string-fields-of-a-whole-number-of-chunks", &zoo.StrCarrier{S: strings.Repeat("s", 2048), L: []string{strings.Repeat("t", 4096), "after"}, MV: map[string]string{"k": strings.Repeat("u", 2048)}}},
		{"binaries-of-4096-8192-octets-followed-by-values", []interface{}{make([]byte, 4096), int32(1), make([]byte, 8192), "tail", make([]byte, 31), make([]byte, 1023), make([]byte, 1024)}},
		{"strings-of-31-32-1023-1024-characters", []interface{}{strings.Repeat("a", 31), strings.Repeat("b", 32), strings.Repeat("c", 1023), strings.Repeat("d", 1024), "tail"}},
		{"16-and-17-classes-then-instances-of-the-16th-and-17th", append(zoo.ManyClasses(17), reflect.New(zoo.QTypes[15]).Interface(), reflect.New(zoo.QTypes[16]).Interface())},
		{"300-classes-in-one-message", zoo.ManyClasses(300)},
		{"17-classes-in-one-message", zoo.ManyClasses(17)},
		{"multi-chunk-binary-after-3-classes", []interface{}{&zoo.K00{A: 1}, &zoo.K01{A: "x"}, &zoo.K02{A: 2}, make([]byte, 5000), make([]byte, 9000)}},
		{"typed-slice-1500", zoo.SlI32{L: big}},
		{"top-level-slice-1025", big[:1025]},
		{"untyped-list-1025", zoo.AnyList{L: bigAny}},
		{"ptr-slice-1030-with-nils", zoo.SlPtr{L: bigPtr}},
		{"string-slice-1025-with-empties", zoo.SlStr{L: bigStr}},
		{"nested-1025", zoo.SlSlI32{L: [][]int32{big[:1025], {1}, big[:1024]}}},
		{"typed-slice-256", zoo.SlI32{L: long}},
		{"typed-slice-263", zoo.SlI32{L: append(append([]int32{}, long...), 1, 2, 3, 4, 5, 6, 7)}},
		{"empty-string-in-list", zoo.SlStr{L: []string{"a", "", "b"}}},
		{"integral-double", zoo.Scalars{F64: 2.0, F32: 100}},
		{"map-string-int", zoo.MpStrInt{M: map[string]int{"a": 1, "b": -5}}},
		{"third-class-in-list", zoo.ManyL{Items: []interface{}{&zoo.K00{A: 1}, &zoo.K01{A: "x"}, &zoo.K00{A: 2}, &zoo.K01{A: "y"}}}},
		{"nil-ptr-in-list", zoo.SlPtr{L: []*zoo.Inner{{A: 1, S: "a"}, nil, {A: 2, S: "b"}}}},
		{"map-empty-key", zoo.MpStrStr{M: map[string]string{"": "x", "k": "y"}}},
	}
}
