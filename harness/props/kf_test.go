package props

import (
	"encoding/json"
	"os"
)

// Known findings (open): /verif/known_findings.json, read-only. Each open entry
// names a shape predicate compiled into the harness; generators avoid that
// shape by construction and count what they avoided.
type kfEntry struct {
	ID       string `json:"id"`
	Property string `json:"property"`
	What     string `json:"what"`
	Shape    string `json:"shape"`
	Witness  string `json:"witness"`
}

type kfFile struct {
	Open  []kfEntry `json:"open"`
	Fixed []string  `json:"fixed"`
}

var kf kfFile

func init() {
	p := os.Getenv("VERIF_KF")
	if p == "" {
		p = "/verif/known_findings.json"
	}
	b, err := os.ReadFile(p)
	if err != nil {
		return
	}
	json.Unmarshal(b, &kf)
}

// openShape reports whether an open finding with this shape is listed for prop
// (prop "" matches any property).
func openShape(prop, shape string) bool {
	for _, e := range kf.Open {
		if e.Shape == shape && (prop == "" || e.Property == prop) {
			return true
		}
	}
	return false
}

func openEntries(prop string) []kfEntry {
	var out []kfEntry
	for _, e := range kf.Open {
		if e.Property == prop {
			out = append(out, e)
		}
	}
	return out
}
