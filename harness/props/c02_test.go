package props

import (
	"bytes"
	"fmt"
	"reflect"
	"runtime"
	"sort"
	"testing"
	"time"

	hessian "github.com/vogo/gohessian"
	"pgregory.net/rapid"

	"verif/harness/av"
	"verif/harness/rec"
	"verif/harness/refcodec"
	"verif/harness/zoo"
	"verif/harness/zoo/twin"
)

// c02Canon: what C02 compares. Forms are not prescribed here (C07/C08 do that):
// -0 and +0, and all NaNs, are one double; "" may be written as null; an empty
// list, map or binary may be written as null.
var c02Canon = av.Options{DoubleNormalize: true, NullEmptyString: true, EmptyContainerNull: true}

// wireCheck is the C02 oracle on one value and name map.
func wireCheck(v interface{}, nm map[string]string) (bytes []byte, got *av.V, dec *refcodec.Decoder, err error) {
	want, perr := zoo.Project(v, nm)
	if perr != nil {
		return nil, nil, nil, nil // unrepresentable: not C02's subject
	}
	var eerr error
	if pv, st := guard(func() { bytes, eerr = hessian.ToBytes(v, nm) }); pv != nil {
		return nil, nil, nil, fmt.Errorf("panic in ToBytes: %v [%s]", pv, st)
	}
	if eerr != nil {
		return nil, nil, nil, fmt.Errorf("ToBytes failed: %v", eerr)
	}
	got, dec, derr := refcodec.Decode(bytes)
	if derr != nil {
		return bytes, got, dec, fmt.Errorf("emitted bytes are not one well-formed Hessian 2.0 value: %v", derr)
	}
	w, g := av.Canon(want, c02Canon), av.Canon(got, c02Canon)
	if w != g {
		return bytes, got, dec, fmt.Errorf("stream denotes a different value\n want: %s\n  got: %s", clipDiff(w, g), clipDiff(g, w))
	}
	// every byte sequence the encoder produces: also the one-shot output of an
	// encoder that has encoded before (each one-shot message is a stream of its own)
	var again []byte
	if pv, st := guard(func() {
		s := hessian.NewSerializer(nil, nm)
		if _, eerr = s.ToBytes(v); eerr == nil {
			again, eerr = s.ToBytes(v)
		}
	}); pv != nil || eerr != nil {
		return bytes, got, dec, fmt.Errorf("second ToBytes on one Serializer failed: %v %v [%s]", eerr, pv, st)
	}
	got2, _, derr2 := refcodec.Decode(again)
	if derr2 != nil {
		return again, got2, dec, fmt.Errorf("second one-shot message of a reused Serializer is not one well-formed value: %v", derr2)
	}
	if g2 := av.Canon(got2, c02Canon); g2 != w {
		return again, got2, dec, fmt.Errorf("second one-shot message of a reused Serializer denotes a different value\n want: %s\n  got: %s", clipDiff(w, g2), clipDiff(g2, w))
	}
	return bytes, got, dec, nil
}

type sharedNameCase struct {
	name string
	v    interface{}
	nm   map[string]string
}

func c02SharedNames() []sharedNameCase {
	a1 := &zoo.AcctV1{ID: 7, Name: "ann", Note: "first"}
	a2 := &zoo.AcctV2{Name: "bob", ID: 1 << 40, Tags: []string{"x", "y"}}
	i1 := &zoo.IntFields{I8: -3, I16: 300, I32: 70000, I: 5, I64: 1 << 41, U8: 200, U16: 60000, U32: 1 << 31, U: 9, U64: 1 << 50}
	i2 := &zoo.IntFieldsWide{I8: 1 << 40, I16: -(1 << 35), I32: 1<<31 + 5, I: -(1 << 62), I64: 3, U8: 1 << 33, U16: 70000, U32: 1 << 45, U: 1 << 62, U64: 12}
	zi, ti := &zoo.Inner{A: 4, S: "zoo"}, &twin.Inner{X: 2.5, Tags: []string{"t"}, Sub: &twin.Leaf{N: 1 << 40, S: "leaf"}}
	return []sharedNameCase{
		{"AcctV1-then-AcctV2", []interface{}{a1, a2, a1, a2, &zoo.AcctV1{ID: 8}, &zoo.AcctV2{ID: 9}}, zoo.OneClassName()},
		{"AcctV2-then-AcctV1", []interface{}{a2, a1, &zoo.AcctV2{Name: "c"}}, zoo.OneClassName()},
		{"by-value", []interface{}{*a1, *a2, *a1}, zoo.OneClassName()},
		{"IntFields-then-IntFieldsWide", []interface{}{i1, i2, i1, &zoo.IntFieldsWide{I8: 1}}, zoo.OneClassName()},
		{"IntFieldsWide-then-IntFields", []interface{}{i2, i1}, zoo.OneClassName()},
		{"same-Go-name-two-packages-no-name-map", []interface{}{zi, ti, zi, &twin.Inner{X: 1}, &zoo.Inner{A: 5}}, nil},
		{"same-Go-name-two-packages-no-name-map-twin-first", map[string]interface{}{"k": []interface{}{ti, zi}}, nil},
	}
}

var c02Inner = []interface{}{
	&zoo.Scalars{I32: 70000, I64: 1 << 40, F64: 0.1, S: "inner", T: time.UnixMilli(1500000000123)},
	mkString(4, 2100, 0, 0, 9),
	mkBytes(4200, 9),
	[]interface{}{&zoo.Inner{A: 1, S: "i"}, 2.5, int64(1) << 50, time.Unix(1600000000, 0)},
}

// gcWriter collects garbage between writes: whatever the encoder remembers about values
// already written (addresses in its ref table) must stay valid across a collection.
type gcWriter struct {
	buf   bytes.Buffer
	calls int
	every int
}

func (w *gcWriter) Write(p []byte) (int, error) {
	w.calls++
	if w.calls%w.every == 0 {
		runtime.GC()
	}
	return w.buf.Write(p)
}

// gcCheck: the stream written while the collector runs between writes must be the stream
// written without it.
func gcCheck(v interface{}, nm map[string]string, plain []byte) error {
	w := &gcWriter{every: 3 + len(plain)/60} // a dozen or so collections per message
	var err error
	if pv, st := guard(func() { err = hessian.NewEncoder(w, nm).WriteObject(v) }); pv != nil || err != nil {
		return fmt.Errorf("encode with a collecting writer failed: %v %v [%s]", err, pv, st)
	}
	if msg := sameStream(plain, w.buf.Bytes()); msg != "" {
		return fmt.Errorf("the stream differs when garbage is collected between writes: %s", msg)
	}
	return nil
}

// clipDiff shows a around the first difference with b.
func clipDiff(a, b string) string {
	i := 0
	for i < len(a) && i < len(b) && a[i] == b[i] {
		i++
	}
	lo := i - 80
	if lo < 0 {
		lo = 0
	}
	hi := i + 160
	if hi > len(a) {
		hi = len(a)
	}
	s := a[lo:hi]
	if lo > 0 {
		s = "..." + s
	}
	if hi < len(a) {
		s += "..."
	}
	return fmt.Sprintf("[diff at %d] %s", i, s)
}

// handNames builds a name map by hand: same keys the encoder looks up (struct
// type names, slice type names, named map types) with generated wire names.
func handNames(rt *rapid.T, extracted map[string]string, tm map[string]reflect.Type) map[string]string {
	keys := make([]string, 0, len(extracted))
	for k := range extracted {
		keys = append(keys, k)
	}
	sort.Strings(keys)
	nm := map[string]string{}
	n := 0
	for _, k := range keys {
		typ, ok := tm[k]
		if !ok || zoo.TypeName(typ) != k {
			continue // alias entries keyed by wire name
		}
		n++
		switch typ.Kind() {
		case reflect.Struct:
			if typ == zoo.TimeType || typ.PkgPath() == "time" {
				continue
			}
			nm[k] = rapid.SampledFrom([]string{"com.example.", "org.x.y.", "", "a.b."}).Draw(rt, "pkg") + fmt.Sprintf("Cls%d_", n) + rapid.StringMatching("[A-Za-z_$]{0,6}").Draw(rt, "clsname")
		case reflect.Slice:
			if rapid.IntRange(0, 4).Draw(rt, "dropListName") == 0 {
				continue // unregistered slice type: written untyped
			}
			nm[k] = "[" + rapid.StringMatching("[a-z.]{1,12}").Draw(rt, "listname")
		case reflect.Map:
			if typ.Name() != "" {
				nm[k] = "java.util." + rapid.StringMatching("[A-Z][a-z]{2,8}Map").Draw(rt, "mapname")
			}
		}
	}
	return nm
}

func c02Cfg() zoo.Cfg {
	cfg := zoo.DefaultCfg()
	cfg.TimeMillis = true
	cfg.Avoid = map[string]bool{}
	for _, e := range openEntries("C02") {
		cfg.Avoid[e.Shape] = true
	}
	return cfg
}

func c02NonTrivial(dec *refcodec.Decoder, got *av.V) bool {
	if dec == nil {
		return false
	}
	if len(dec.Classes) > 0 || len(dec.RefNodes) > 0 {
		return true
	}
	typed := false
	av.Walk(got, func(x *av.V) {
		if x.K == av.List && x.Typed {
			typed = true
		}
	})
	return typed
}

func TestC02(t *testing.T) {
	r := rec.For("C02")
	// open known findings: run each witness once
	if openShape("C02", "date-compact") {
		v := time.Unix(1600000001, 0) // 2020-09-13T12:26:41Z: whole second, not a whole minute
		if _, _, _, err := wireCheck(v, nil); err != nil {
			r.Known("KF-DATE-COMPACT a whole-second instant is written as x4b + seconds; the format defines x4b as minutes (witness time.Unix(1600000001,0))")
		}
	}
	for _, rc := range c01Regression() {
		r.Eval()
		_, nm := hessian.ExtractTypeNameMap(rc.v)
		if b, _, _, err := wireCheck(rc.v, nm); err != nil {
			rec.WriteFailure(rec.Failure{Prop: "C02", Test: t.Name(), Kind: "direct", Message: fmt.Sprintf("regression case %s: %v", rc.name, err), Case: map[string]interface{}{"regression": rc.name, "bytes": hexClip(b, 200)}})
			t.Fatalf("regression case %s: %v", rc.name, err)
		}
	}
	// two Go types that go by one class name, in one message (each needs a definition of its own, whichever
	// comes first, and the instances must name their own): under a name map with two entries for one class, and
	// under no name map with equally named types of two packages
	for _, sc := range c02SharedNames() {
		r.Eval()
		if b, _, _, err := wireCheck(sc.v, sc.nm); err != nil {
			rec.WriteFailure(rec.Failure{Prop: "C02", Test: t.Name(), Kind: "direct", Message: fmt.Sprintf("two types, one class name (%s): %v", sc.name, err), Case: map[string]interface{}{"regression": sc.name, "bytes": hexClip(b, 400)}})
			t.Fatalf("two types under one class name, case %s: %v", sc.name, err)
		}
		r.NonTrivial(av.Hash("shared-name/" + sc.name))
		r.Label("two Go types under one class name in one message")
	}
	cfg := c02Cfg()
	check(t, "C02", func(rt *rapid.T, c *caseInfo) {
		g := zoo.NewG(rt, cfg)
		v, shape := g.Top()
		tm, nm := hessian.ExtractTypeNameMap(v)
		mode := rapid.SampledFrom([]string{"extracted", "extracted", "hand", "nil"}).Draw(rt, "nameMapMode")
		switch mode {
		case "hand":
			nm = handNames(rt, nm, tm)
		case "nil":
			nm = nil
		}
		desc := zoo.Describe(v, 600)
		c.set("shape", shape)
		c.set("value", desc)
		c.set("nameMap", fmt.Sprint(nm))
		r.Current("C02 " + shape + " " + mode + " " + desc)
		r.Eval()
		var nmCopy map[string]string
		if nm != nil {
			nmCopy = map[string]string{}
			for k, v := range nm {
				nmCopy[k] = v
			}
		}
		b, got, dec, err := wireCheck(v, nmCopy)
		if err == nil && len(b) > 200 && len(b) < 4000 && rapid.IntRange(0, 299).Draw(rt, "gcStress") == 0 {
			err = gcCheck(v, copyNames(nm), b)
			r.Label("gc-between-writes")
		}
		if err == nil && len(b) < 3000 && rapid.IntRange(0, 19).Draw(rt, "nested") == 0 {
			// the inner value takes the scalar, chunked-string, chunked-binary and object paths
			inner := c02Inner[rapid.IntRange(0, len(c02Inner)-1).Draw(rt, "innerValue")]
			err = nestedEncode(v, inner, copyNames(nm), b)
			r.Label("another-encoder-between-writes")
		}
		r.Label("names:" + mode)
		r.Label("shape:" + shape[:indexOrLen(shape, ':')])
		r.ExcludedMap(g.Avoided)
		if err == nil && c02NonTrivial(dec, got) {
			r.NonTrivial(av.Hash(shape + mode + fmt.Sprintf("%x", b)))
			if len(dec.RefNodes) > 0 {
				r.Label("has-ref")
			}
			if len(dec.Classes) >= 3 {
				r.Label("classes>=3")
			}
			if len(dec.Classes) >= 17 {
				r.Label("classes>=17")
			}
		}
		r.Sample(func() interface{} {
			return map[string]interface{}{"shape": shape, "names": mode, "value": desc, "bytes": hexClip(b, 80), "denotes": shortAV(got)}
		})
		if err != nil {
			c.set("bytes", hexClip(b, 60000))
			c.set("value_full", zoo.Describe(v, 100000))
			failf(rt, c, "C02 %s (name map: %s): %v\n value: %s\n bytes: %s", shape, mode, err, desc, hexClip(b, 300))
		}
	})
}

func shortAV(v *av.V) string {
	if v == nil {
		return ""
	}
	return av.Short(v, 300)
}
