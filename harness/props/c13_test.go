package props

import (
	"bufio"
	"bytes"
	"fmt"
	"reflect"
	"strings"
	"sync"
	"testing"
	"time"
	"unsafe"

	hessian "github.com/vogo/gohessian"
	"pgregory.net/rapid"

	"verif/harness/av"
	"verif/harness/rec"
	"verif/harness/refcodec"
	"verif/harness/zoo"
)

// carriers with statically unsupported members
type badChanField struct {
	A int32
	C chan int
	B string
}
type badFuncField struct {
	F func()
	A int32
}
type badComplexList struct {
	A int32
	L []complex128
}
type badMapVal struct {
	M map[string]func()
}
type badNested struct {
	P *badChanField
	N int32
}
type badChanList struct {
	L []chan int
	Z int32
}

func c13AccountOK() interface{} {
	type Account struct {
		Name string
		N    int32
	}
	return &Account{Name: "first", N: 1}
}

func c13AccountHidden() interface{} {
	type Account struct {
		Name string
		hits int32
	}
	return &Account{Name: "second", hits: 2}
}

type badViews struct {
	Preview *[]interface{}
	All     *[]interface{}
	N       int32
}

// structs with state the encoder cannot read
type badHidden struct {
	A    int32
	hits int32
	B    string
}
type badLocked struct {
	Name string
	Mu   sync.Mutex
	Hits int32
}
type badHiddenDeep struct {
	N int32
	P *badHidden
	L []badHidden
}

// exported fields whose names start with a non-ASCII upper-case letter
type badNonASCIIField struct {
	A     int32
	Évent chan int
	Z     string
}
type badNonASCIIFunc struct {
	Ωmega func()
	Ärger complex128
}

// a struct that embeds a timestamp and has further fields is an object, not a date
type badStamped struct {
	time.Time
	C chan int
}
type badStampedDeep struct {
	N int32
	S badStamped
}

// a named map type (registered: written as a typed map) whose keys are interface slots
type badKeyMap map[interface{}]int32

// flushBuf is a destination with a Flush method, like a bufio.Writer in front of a connection
type flushBuf struct{ bytes.Buffer }

func (*flushBuf) Flush() error { return nil }

// a by-value struct as the FIRST field of a struct reached through a pointer (the two share their address)
type badFirst struct {
	S badChanField
	N int32
}

type namedHandle uintptr
type namedSig chan int
type namedCb func()
type namedCx complex128

type sameNameShort struct{ A int32 }
type sameNameFunc struct{ A func() }
type sameNameLong struct {
	A int32
	C chan int
}

var unsupportedKinds = []string{"named uintptr", "named chan", "named func", "named complex128",
	"chan", "func", "complex64", "complex128", "uintptr", "unsafe.Pointer",
	"nil chan", "nil func", "struct{nil chan}",
	"struct{chan}", "*struct{chan}", "struct{func}", "struct{[]complex128}", "struct{map[string]func}", "struct{*struct{chan}}", "[]chan", "struct{[]chan}", "map[string]chan", "[]interface{}{chan}",
	// a Go int beyond the 32 bits of the wire type chosen for its kind: not representable as that type. The call
	// fails, or (should the library choose a wider form) carries the number - see carriedOrFails
	"*struct{first field: struct{chan}}", "instance of the 17th class{chan}", "int in [2^31, 2^32)", "[]int{.., in [2^31, 2^32)}", "struct{int in [-2^32, -2^31)}",
	"anonymous struct{chan}", "*anonymous struct{func}", "[]interface{}{anonymous struct{complex}}",
	"[]interface{}{*prefix, *whole with a chan in the tail}", "struct{*prefix, *whole with a func in the tail}",
	"second of two types of one class name{unexported field}",
	"string that is not valid UTF-8", "[]string{.., not valid UTF-8}", "struct{string that is not valid UTF-8}", "map key that is not valid UTF-8", "named string that ends inside a code point",
	"struct{unexported field}", "*struct{unexported field}", "*struct{sync.Mutex}", "struct{*struct{unexported field}}", "all-zero struct{chan}",
	"struct{Évent chan}", "struct{Ωmega func; Ärger complex128}", "struct{time.Time; chan}", "*struct{struct{time.Time; chan}}",
	"int beyond 32 bits", "negative int beyond 32 bits", "[]int{.., beyond 32 bits, ..}", "map[string]int{beyond 32 bits}", "struct{int beyond 32 bits}"}

const c13Big = int64(1)<<40 + 12345

type bigIntField struct {
	A int32
	N int
	B string
}

// carriedOrFails is the verdict for the wide-int kinds when the encode call returned nil: the stream must be one
// well-formed value under the independent reading and must contain the number, unaltered.
func carriedOrFails(b []byte) string {
	a, _, derr := refcodec.Decode(b)
	if derr != nil {
		return fmt.Sprintf("ToBytes returned nil error for a value holding a Go int beyond 32 bits, and %d octets %s that are not a well-formed value: %v", len(b), hexClip(b, 60), derr)
	}
	found := false
	av.Walk(a, func(x *av.V) {
		if (x.K == av.Long || x.K == av.Int) && (x.I == c13Big || x.I == -c13Big || x.I == 3000000000 || x.I == -3000000000) {
			found = true
		}
	})
	if !found {
		return fmt.Sprintf("ToBytes returned nil error for a value holding the Go int %d, and the stream %s does not contain that number: %s", c13Big, hexClip(b, 60), shortAV(a))
	}
	return ""
}

func unsupportedValue(kind string) interface{} {
	x := 5
	switch kind {
	case "chan":
		return make(chan int)
	case "func":
		return func() {}
	case "complex64":
		return complex64(complex(1, 2))
	case "complex128":
		return complex(3, 4)
	case "uintptr":
		return uintptr(77)
	case "unsafe.Pointer":
		return unsafe.Pointer(&x)
	case "named uintptr":
		return namedHandle(9)
	case "named chan":
		return namedSig(make(chan int))
	case "named func":
		return namedCb(func() {})
	case "named complex128":
		return namedCx(complex(1, 1))
	case "nil chan":
		// a channel is of an unrepresentable kind whether or not it is nil
		return (chan int)(nil)
	case "nil func":
		return (func())(nil)
	case "struct{nil chan}":
		return &badChanField{A: 1, B: "b"}
	case "struct{chan}":
		return badChanField{A: 1, C: make(chan int), B: "b"}
	case "*struct{chan}":
		return &badChanField{A: 1, C: make(chan int)}
	case "struct{func}":
		return &badFuncField{F: func() {}, A: 2}
	case "struct{[]complex128}":
		return &badComplexList{A: 3, L: []complex128{1, 2}}
	case "struct{map[string]func}":
		return &badMapVal{M: map[string]func(){"f": func() {}}}
	case "struct{*struct{chan}}":
		return &badNested{P: &badChanField{C: make(chan int)}, N: 4}
	case "[]chan":
		return []chan int{make(chan int), make(chan int)}
	case "struct{[]chan}":
		return &badChanList{L: []chan int{make(chan int)}, Z: 9}
	case "map[string]chan":
		return map[string]chan int{"c": make(chan int)}
	case "[]interface{}{chan}":
		return []interface{}{int32(1), make(chan int), int32(3)}
	case "*struct{first field: struct{chan}}":
		return &badFirst{S: badChanField{A: 1, C: make(chan int), B: "b"}, N: 2}
	case "instance of the 17th class{chan}":
		l := zoo.ManyClasses(16)[:16]
		return append(append([]interface{}{}, l...), &badChanField{A: 1, C: make(chan int)})
	case "int in [2^31, 2^32)":
		return int(3000000000)
	case "[]int{.., in [2^31, 2^32)}":
		return []int{1, 3000000000, 3}
	case "struct{int in [-2^32, -2^31)}":
		return &bigIntField{A: 1, N: -3000000000, B: "b"}
	case "anonymous struct{chan}":
		return struct {
			A int32
			C chan int
		}{1, make(chan int)}
	case "*anonymous struct{func}":
		return &struct {
			S string
			F func()
		}{"s", func() {}}
	case "[]interface{}{anonymous struct{complex}}":
		return []interface{}{int32(1), struct{ X complex128 }{complex(1, 2)}}
	case "[]interface{}{*prefix, *whole with a chan in the tail}":
		// two lists over one array, both behind pointers: the longer one is another list than its prefix
		all := []interface{}{int32(1), int32(2), make(chan int)}
		preview := all[:2]
		return []interface{}{&preview, &all}
	case "struct{*prefix, *whole with a func in the tail}":
		all := []interface{}{int32(1), "two", int32(3), func() {}}
		preview := all[:1]
		return &badViews{Preview: &preview, All: &all, N: 3}
	case "second of two types of one class name{unexported field}":
		// (two packages' Account, two scopes' Account: one class name, two Go types)
		return []interface{}{c13AccountOK(), c13AccountHidden()}
	case "struct{unexported field}":
		// what sits in an unexported field cannot be read, let alone represented
		return badHidden{A: 1, hits: 3, B: "b"}
	case "string that is not valid UTF-8":
		// a Hessian string is a sequence of characters: octets that are no UTF-8 have no rendering (a []byte has)
		return "a\xffb"
	case "[]string{.., not valid UTF-8}":
		return []string{"ok", "caf\xe9", "ok"} // Latin-1, not UTF-8
	case "struct{string that is not valid UTF-8}":
		return &zoo.Inner{A: 1, S: "\xc3"} // the first octet of a two-octet character, alone
	case "map key that is not valid UTF-8":
		return map[string]int32{"k\xed\xa0\x80": 1} // a surrogate half in UTF-8 clothing
	case "named string that ends inside a code point":
		return zoo.Label("日本"[:4])
	case "*struct{unexported field}":
		// (behind a pointer the object has an identity: refused once, refused whenever it is offered)
		return &badHidden{A: 1, hits: 3, B: "b"}
	case "*struct{sync.Mutex}":
		return &badLocked{Name: "n", Hits: 2}
	case "struct{*struct{unexported field}}":
		return &badHiddenDeep{N: 1, P: &badHidden{A: 2, hits: 1}, L: []badHidden{{A: 3}}}
	case "all-zero struct{chan}":
		return badChanField{}
	case "struct{Évent chan}":
		return &badNonASCIIField{A: 1, Évent: make(chan int), Z: "z"}
	case "struct{Ωmega func; Ärger complex128}":
		return badNonASCIIFunc{Ωmega: func() {}, Ärger: complex(1, 2)}
	case "struct{time.Time; chan}":
		return &badStamped{Time: time.Unix(1500000000, 0), C: make(chan int)}
	case "*struct{struct{time.Time; chan}}":
		return &badStampedDeep{N: 1, S: badStamped{Time: time.Unix(1500000001, 0), C: make(chan int)}}
	case "int beyond 32 bits":
		return int(c13Big)
	case "negative int beyond 32 bits":
		return int(-c13Big)
	case "[]int{.., beyond 32 bits, ..}":
		return []int{1, int(c13Big), 3}
	case "map[string]int{beyond 32 bits}":
		return map[string]int{"n": int(c13Big)}
	case "struct{int beyond 32 bits}":
		return &bigIntField{A: 1, N: int(c13Big), B: "b"}
	}
	panic("unknown kind " + kind)
}

// slot is a place in a value where an interface-typed sub-value sits.
type slot struct {
	path string
	set  func(v reflect.Value) (restore func())
	top  bool
}

var ifaceType = reflect.TypeOf((*interface{})(nil)).Elem()

// collectSlots walks v and lists every interface-typed position: elements of
// []interface{}, values of map[..]interface{}, and one fresh key per
// map[interface{}]... (hashable kinds only).
func collectSlots(rv reflect.Value, path string, out *[]slot, seen map[uintptr]bool, depth int) {
	if depth > 40 {
		return
	}
	switch rv.Kind() {
	case reflect.Interface:
		if !rv.IsNil() {
			collectSlots(rv.Elem(), path, out, seen, depth+1)
		}
	case reflect.Ptr:
		if rv.IsNil() || seen[rv.Pointer()] {
			return
		}
		seen[rv.Pointer()] = true
		collectSlots(rv.Elem(), path, out, seen, depth+1)
	case reflect.Struct:
		if rv.Type() == zoo.TimeType {
			return
		}
		for i := 0; i < rv.NumField(); i++ {
			collectSlots(rv.Field(i), path+"."+rv.Type().Field(i).Name, out, seen, depth+1)
		}
	case reflect.Slice:
		if rv.Type().Elem().Kind() == reflect.Uint8 {
			return
		}
		for i := 0; i < rv.Len(); i++ {
			e := rv.Index(i)
			p := fmt.Sprintf("%s[%d]", path, i)
			if e.Kind() == reflect.Interface && e.CanSet() {
				ee := e
				*out = append(*out, slot{path: p, set: func(v reflect.Value) func() {
					old := reflect.ValueOf(ee.Interface())
					ee.Set(v)
					return func() {
						if old.IsValid() {
							ee.Set(old)
						} else {
							ee.Set(reflect.Zero(ifaceType))
						}
					}
				}})
			}
			collectSlots(e, p, out, seen, depth+1)
		}
	case reflect.Map:
		if rv.IsNil() {
			return
		}
		m := rv
		if m.Type().Elem().Kind() == reflect.Interface {
			for _, k := range m.MapKeys() {
				kk := k
				p := fmt.Sprintf("%s[%v]", path, clipAny(kk.Interface()))
				*out = append(*out, slot{path: p + " (map value)", set: func(v reflect.Value) func() {
					old := m.MapIndex(kk)
					nv := reflect.New(ifaceType).Elem()
					nv.Set(v)
					m.SetMapIndex(kk, nv)
					return func() { m.SetMapIndex(kk, old) }
				}})
			}
		}
		if m.Type().Key().Kind() == reflect.Interface && m.Len() > 0 {
			*out = append(*out, slot{path: path + " (map key)", set: func(v reflect.Value) func() {
				if !v.Type().Comparable() {
					return nil
				}
				nk := reflect.New(ifaceType).Elem()
				nk.Set(v)
				val := reflect.New(m.Type().Elem()).Elem()
				if val.Kind() == reflect.Interface {
					val.Set(reflect.ValueOf(int32(1)))
				}
				m.SetMapIndex(nk, val)
				return func() { m.SetMapIndex(nk, reflect.Value{}) }
			}})
		}
		for _, k := range m.MapKeys() {
			collectSlots(m.MapIndex(k), fmt.Sprintf("%s[%v]", path, clipAny(k.Interface())), out, seen, depth+1)
		}
	}
}

func clipAny(v interface{}) string {
	s := fmt.Sprint(v)
	if len(s) > 16 {
		return s[:16] + "..."
	}
	return s
}

var c13Tops = []reflect.Type{zoo.T(zoo.AnyList{}), zoo.T(zoo.AnyMap{}), zoo.T(zoo.ManyL{}), zoo.T(zoo.StrCarrier{}), zoo.T(zoo.BinCarrier{}), zoo.T(zoo.TimeCarrier{})}

// mustFail: encoding v, which holds a non-nil unsupported value, must return an
// error and must not panic.
func mustFail(v interface{}, nm map[string]string, wide bool) string {
	var b []byte
	var err error
	if pv, st := guard(func() { b, err = hessian.ToBytes(v, nm) }); pv != nil {
		return fmt.Sprintf("ToBytes panicked: %v [%s]", pv, st)
	}
	if err == nil && wide {
		if msg := carriedOrFails(b); msg != "" {
			return msg
		}
		return ""
	}
	if err == nil {
		a, _, derr := refcodec.Decode(b)
		return fmt.Sprintf("ToBytes returned nil error and %d octets %s; under the format they read as %s (%v)", len(b), hexClip(b, 60), shortAV(a), derr)
	}
	// refused once, refused again: a rejected value must leave nothing behind in the instance
	var b1, b2, b3, b4 []byte
	var e1, e2, e3, e4 error
	if pv, st := guard(func() {
		s := hessian.NewSerializer(nil, nm)
		b1, e1 = s.ToBytes(v)
		b2, e2 = s.ToBytes(v)
		b3, e3 = s.ToBytes(c13Good)
		b4, e4 = hessian.ToBytes(c13Good, nil)
	}); pv != nil {
		return fmt.Sprintf("second ToBytes of the same value on one Serializer panicked: %v [%s]", pv, st)
	}
	if e1 == nil || e2 == nil {
		return fmt.Sprintf("ToBytes of the same value twice on one Serializer: errors %v / %v, bytes %s / %s", e1, e2, hexClip(b1, 30), hexClip(b2, 30))
	}
	// the continuous entry point on a destination that can be flushed (a bufio.Writer in front of a connection)
	var e5 error
	if pv, st := guard(func() {
		s := hessian.NewSerializer(nil, nm)
		fb := &flushBuf{}
		if e5 = s.WriteTo(fb, c13Good); e5 != nil {
			e5 = nil
			return
		}
		if e5 = s.Write(v); e5 == nil {
			e5 = fmt.Errorf("no error")
		} else {
			e5 = nil
		}
	}); pv != nil {
		return fmt.Sprintf("Serializer.Write to a flushable destination panicked: %v [%s]", pv, st)
	}
	if e5 != nil {
		return "Serializer.Write of the value, as the second message of a stream to a destination with a Flush method, returned nil"
	}
	// a refusal that put nothing on the stream must leave nothing in the encoder either: the values written before
	// and after it on the same stream are then bytes that decode to the values written (§5 #40)
	if msg := streamAroundRefusal(v, nm); msg != "" {
		return msg
	}
	// and the next, representable, value is encoded as if the refused one had never been seen: an encode that
	// "succeeds" with left-overs of the refused value in front is bytes that decode to something else
	if e3 != nil || !bytes.Equal(b3, c13GoodBytes) {
		return fmt.Sprintf("after the refusal the same Serializer encodes %v as %s (err %v), a new one as %s", c13Good, hexClip(b3, 40), e3, hexClip(c13GoodBytes, 40))
	}
	if e4 != nil || !bytes.Equal(b4, c13GoodBytes) {
		return fmt.Sprintf("after the refusal the package-level ToBytes encodes %v as %s (err %v); expected %s", c13Good, hexClip(b4, 40), e4, hexClip(c13GoodBytes, 40))
	}
	return ""
}

// c13Node is what is written around a refused value on one stream.
type c13Node struct {
	N    int32
	Next *c13Node
}

// streamAroundRefusal writes a value, the refused value and a further value through one Encoder to one stream. When
// the refused call left the stream as it was (no octet of a partial message: otherwise the caller was told and
// nothing is claimed about what follows), the stream holds two well-formed values whose back-references must denote
// what they stood for: an encode that succeeds with ordinals shifted by the refused value is bytes that decode to
// something else.
func streamAroundRefusal(v interface{}, nm map[string]string) string {
	var buf bytes.Buffer
	p, q := &c13Node{N: 5}, &c13Node{N: 6}
	q.Next = q
	first, after := []interface{}{p, "x"}, []interface{}{q, q, p}
	var e1, e2, e3 error
	n1, n2 := 0, 0
	if pv, st := guard(func() {
		e := hessian.NewEncoder(&buf, copyNames(nm))
		e1 = e.WriteObject(first)
		n1 = buf.Len()
		e2 = e.WriteObject(v)
		n2 = buf.Len()
		if e1 == nil && e2 != nil && n1 == n2 {
			e3 = e.WriteObject(after)
			// offered again, after other objects have been written, the value is refused again
			if e3 == nil {
				n3 := buf.Len()
				if e4 := e.WriteObject(v); e4 == nil {
					e3 = fmt.Errorf("the refused value, offered to the same stream again after another message, was accepted as %s", hexClip(buf.Bytes()[n3:], 24))
				} else if buf.Len() != n3 {
					buf.Truncate(n3) // (what a refusal leaves on the stream the second time is not claimed)
				}
			}
		}
	}); pv != nil {
		return fmt.Sprintf("Encoder.WriteObject of the value as the second message of a stream panicked: %v [%s]", pv, st)
	}
	if e1 != nil || e2 == nil || n1 != n2 {
		return ""
	}
	if msg := streamAroundRefusalWithClass(v, nm); msg != "" {
		return msg
	}
	if e3 != nil {
		return fmt.Sprintf("after a refusal that wrote nothing, the next WriteObject on the stream fails: %v", e3)
	}
	whole := append([]byte(nil), buf.Bytes()...)
	var r1, r2 interface{}
	var d1, d2 error
	if pv, st := guard(func() {
		d := hessian.NewDecoder(bufio.NewReader(bytes.NewReader(whole)), map[string]reflect.Type{"c13Node": reflect.TypeOf(c13Node{})})
		r1, d1 = d.ReadObject()
		if d1 == nil {
			r2, d2 = d.ReadObject()
		}
	}); pv != nil {
		return fmt.Sprintf("decoding the stream written around a refusal panicked: %v [%s]", pv, st)
	}
	bad := func(why string) string {
		return fmt.Sprintf("a value, the refused value (error, nothing written) and %s through one Encoder: the stream %s %s", "[q q p]", hexClip(whole, 80), why)
	}
	if d1 != nil || d2 != nil {
		return bad(fmt.Sprintf("cannot be decoded: %v / %v", d1, d2))
	}
	l1, ok1 := r1.([]interface{})
	l2, ok2 := r2.([]interface{})
	if !ok1 || !ok2 || len(l1) != 2 || len(l2) != 3 {
		return bad(fmt.Sprintf("decodes to %T / %T", r1, r2))
	}
	gp, _ := l1[0].(*c13Node)
	a, _ := l2[0].(*c13Node)
	b, _ := l2[1].(*c13Node)
	c, _ := l2[2].(*c13Node)
	if gp == nil || a == nil || b == nil || c == nil || gp.N != 5 || a.N != 6 || a != b || a.Next != a || c != gp {
		return bad(fmt.Sprintf("decodes to [%p ..] / [%p %p %p]: the references no longer denote what they stood for", gp, a, b, c))
	}
	return ""
}

// c13Late is a class first met inside a refused message.
type c13Late struct{ N int32 }

// streamAroundRefusalWithClass: the refused message is a list that begins with an instance of a class the stream
// has not seen and ends with the refused value. An encoder that holds a message back until it is complete puts
// nothing of it on the stream; it must then not remember the class definition as sent either: the next instance of
// that class on the stream needs its definition. (When part of the message reached the stream nothing is claimed.)
func streamAroundRefusalWithClass(v interface{}, nm map[string]string) string {
	var buf bytes.Buffer
	var e1, e2, e3 error
	n1, n2 := 0, 0
	if pv, _ := guard(func() {
		e := hessian.NewEncoder(&buf, copyNames(nm))
		e1 = e.WriteObject("first")
		n1 = buf.Len()
		e2 = e.WriteObject([]interface{}{&c13Late{N: 1}, v})
		n2 = buf.Len()
		if e1 == nil && e2 != nil && n1 == n2 {
			e3 = e.WriteObject(&c13Late{N: 2})
		}
	}); pv != nil || e1 != nil || e2 == nil || n1 != n2 {
		return ""
	}
	if e3 != nil {
		return fmt.Sprintf("after a refused message that wrote nothing, the next WriteObject on the stream fails: %v", e3)
	}
	whole := append([]byte(nil), buf.Bytes()...)
	var r2 interface{}
	var d1, d2 error
	if pv, st := guard(func() {
		d := hessian.NewDecoder(bufio.NewReader(bytes.NewReader(whole)), map[string]reflect.Type{"c13Late": reflect.TypeOf(c13Late{})})
		if _, d1 = d.ReadObject(); d1 == nil {
			r2, d2 = d.ReadObject()
		}
	}); pv != nil {
		return fmt.Sprintf("decoding the stream written around a refused message panicked: %v [%s]", pv, st)
	}
	if p, ok := r2.(*c13Late); d1 != nil || d2 != nil || !ok || p == nil || p.N != 2 {
		return fmt.Sprintf("\"first\", a refused message [&c13Late{1}, <the value>] (error, nothing written) and &c13Late{2} through one Encoder: the stream %s decodes to %T (%v / %v): the class definition was taken for sent", hexClip(whole, 60), r2, d1, d2)
	}
	return ""
}

// c13Good is a small representable value encoded after every refusal; its encoding is context-free.
var cfgAnchor int

// (it ends in a map of an unnamed type: whatever name a refused value left in the name map must not turn it into a typed one)
var c13Good = []interface{}{"after", int32(7), true, map[string]int32{"k": 1}}
var c13GoodBytes = []byte{0x58, 0x94, 0x05, 'a', 'f', 't', 'e', 'r', 0x97, 'T', 'H', 0x01, 'k', 0x91, 'Z'}

func TestC13(t *testing.T) {
	r := rec.For("C13")
	// ---- top level and static carriers, every kind (fixed part)
	for _, k := range unsupportedKinds {
		if msg := mustFail(unsupportedValue(k), nil, (strings.Contains(k, "beyond 32 bits") || strings.Contains(k, "2^31"))); msg != "" {
			directFail(t, "C13", map[string]interface{}{"kind": k, "position": "top level"}, "C13 top-level %s: %s", k, msg)
		}
		r.Eval()
	}
	// two Go types registered under one class name, the second one longer and holding a channel
	{
		v := []interface{}{&sameNameShort{A: 1}, &sameNameLong{A: 2, C: make(chan int)}}
		nm := map[string]string{"sameNameShort": "x.Same", "sameNameLong": "x.Same"}
		if msg := mustFail(v, nm, false); msg != "" {
			directFail(t, "C13", map[string]interface{}{"kind": "chan in the longer of two types sharing a class name"}, "C13 two types under one class name: %s", msg)
		}
		r.Eval()
	}
	// the same with equally long types: the channel sits where the type written first has a string, a func where
	// it has a number (whatever the encoder remembers about a class by its name alone belongs to the other type)
	for i, v := range []interface{}{
		[]interface{}{&zoo.AcctV1{ID: 1, Name: "n", Note: "x"}, &zoo.AcctBad{ID: 2, Name: make(chan string), Note: "y"}},
		[]interface{}{zoo.AcctV1{ID: 1, Name: "n"}, zoo.AcctV1{ID: 3}, zoo.AcctBad{ID: 2, Name: make(chan string)}},
		[]interface{}{&zoo.AcctV1{ID: 1, Name: "n"}, &zoo.AcctBad{ID: 2}}, // a nil channel is a channel
		map[string]interface{}{"k": []interface{}{&sameNameShort{A: 1}, &sameNameFunc{A: func() {}}}},
	} {
		nm := zoo.OneClassName()
		nm["sameNameShort"], nm["sameNameFunc"] = "x.Same", "x.Same"
		if msg := mustFail(v, nm, false); msg != "" {
			directFail(t, "C13", map[string]interface{}{"kind": "unsupported field where the type written first under the same class name has a supported one", "case": i}, "C13 two types under one class name, case %d: %s", i, msg)
		}
		r.Eval()
	}
	// a typed map (a named map type with a registered name) with the unsupported value in key position
	for _, key := range []interface{}{make(chan int), complex(1, 2), uintptr(7), unsafe.Pointer(&cfgAnchor), struct{ C chan int }{make(chan int)}} {
		v := badKeyMap{"ok": 1, key: 2}
		nm := map[string]string{"badKeyMap": "com.example.BadKeyMap"}
		if msg := mustFail(v, nm, false); msg != "" {
			directFail(t, "C13", map[string]interface{}{"kind": fmt.Sprintf("%T as a key of a typed map", key)}, "C13 %T as a key of a typed map: %s", key, msg)
		}
		if msg := mustFail([]interface{}{"x", &v}, nm, false); msg != "" {
			directFail(t, "C13", map[string]interface{}{"kind": fmt.Sprintf("%T as a key of a typed map in a list", key)}, "C13 %T as a key of a typed map inside a list: %s", key, msg)
		}
		r.EvalN(2)
	}
	cfg := zoo.DefaultCfg()
	cfg.MaxBig = 12
	cfg.Budget = 150
	cfg.NoBigStrings = true
	check(t, "C13", func(rt *rapid.T, c *caseInfo) {
		g := zoo.NewG(rt, cfg)
		var v interface{}
		var shape string
		switch rapid.IntRange(0, 3).Draw(rt, "c13shape") {
		case 0:
			v, shape = g.Value(zoo.T([]interface{}{})).Interface(), "slice:[]interface{}"
		case 1:
			v, shape = g.Value(zoo.T(map[interface{}]interface{}{})).Interface(), "map:map[interface{}]interface{}"
		default:
			typ := c13Tops[rapid.IntRange(0, len(c13Tops)-1).Draw(rt, "c13type")]
			p := reflect.New(typ)
			for i := 0; i < typ.NumField(); i++ {
				p.Elem().Field(i).Set(g.Value(typ.Field(i).Type))
			}
			v, shape = p.Interface(), "ptr:"+typ.Name()
		}
		var slots []slot
		collectSlots(reflect.ValueOf(v), "", &slots, map[uintptr]bool{}, 0)
		if len(slots) == 0 {
			rt.Skip("no interface-typed position")
		}
		_, nm := hessian.ExtractTypeNameMap(v)
		desc := zoo.Describe(v, 400)
		c.set("shape", shape)
		c.set("value", desc)
		// the value is encoded on its own or as a member of a container that is part of a cycle (a list that
		// contains itself, a map that holds itself), which in turn is an element of an enclosing list
		target := v
		host := rapid.SampledFrom([]string{"", "", "self-containing list", "self-holding map", "two-list cycle"}).Draw(rt, "cyclicHost")
		switch host {
		case "self-containing list":
			cyc := make([]interface{}, 3)
			cyc[0], cyc[1], cyc[2] = int32(1), v, cyc
			target = []interface{}{"outer", cyc}
		case "self-holding map":
			m := map[interface{}]interface{}{}
			m["v"], m["self"] = v, m
			target = []interface{}{"outer", m}
		case "two-list cycle":
			a, b := make([]interface{}, 2), make([]interface{}, 2)
			a[0], a[1] = v, b
			b[0], b[1] = "b", a
			target = []interface{}{a, "tail"}
		}
		if host != "" {
			shape += " in " + host
		}
		// the base value itself must encode (otherwise an error proves nothing)
		var berr error
		var baseBytes []byte
		if pv, _ := guard(func() { baseBytes, berr = hessian.ToBytes(target, copyNames(nm)) }); pv != nil || berr != nil {
			rt.Skip("base value does not encode (C01's subject)")
		}
		r.Current("C13 " + shape + " " + desc)
		h := av.Hash(shape + desc)
		for si, s := range slots {
			for ki, k := range unsupportedKinds {
				bad := reflect.ValueOf(unsupportedValue(k))
				restore := s.set(bad)
				if restore == nil {
					continue // unhashable as a map key
				}
				msg := mustFail(target, copyNames(nm), (strings.Contains(k, "beyond 32 bits") || strings.Contains(k, "2^31")))
				restore()
				r.Eval()
				r.NonTrivial(h ^ uint64(si)<<20 ^ uint64(ki)<<4)
				if msg != "" {
					c.set("position", s.path)
					c.set("kind", k)
					failf(rt, c, "C13 %s: %s at %s: %s\n base value: %s", shape, k, s.path, msg, desc)
				}
			}
		}
		// restored value must still encode
		var again []byte
		if pv, _ := guard(func() { again, berr = hessian.ToBytes(target, copyNames(nm)) }); pv != nil || berr != nil {
			failf(rt, c, "C13 harness: base value no longer encodes after restore: %v %v", berr, pv)
		}
		if msg := sameStream(baseBytes, again); msg != "" {
			failf(rt, c, "C13 %s: after the refusals the restored value no longer encodes as before: %s\n base value: %s", shape, msg, desc)
		}
		if host != "" {
			r.Label("host:" + host)
		}
		r.Label("shape:" + shape)
		r.Label("slots:" + bucket(len(slots)))
		r.Sample(func() interface{} {
			paths := []string{}
			for i, s := range slots {
				if i < 6 {
					paths = append(paths, s.path)
				}
			}
			return map[string]interface{}{"shape": shape, "value": zoo.Describe(v, 200), "positions": len(slots), "first_positions": paths, "kinds": len(unsupportedKinds)}
		})
	})
}
