package props

import (
	"fmt"
	"math"
	"strconv"
	"testing"

	hessian "github.com/vogo/gohessian"

	"verif/harness/av"
	"verif/harness/rec"
	"verif/harness/refcodec"
	"verif/harness/vcmp"
	"verif/harness/zoo"
)

// doubleLens: the emitted lengths C08 allows for x (shortest exact form; -0.0 may
// take the one-octet zero form or a form that keeps its sign; NaN 5 or 9).
func doubleLens(x float64) (a, b int) {
	bits := math.Float64bits(x)
	switch {
	case x != x:
		return 5, 9
	case bits == 0 || x == 1:
		return 1, 1
	case x == 0: // -0.0
		return 1, 5
	}
	if x == math.Trunc(x) && x >= -128 && x <= 127 {
		return 2, 2
	}
	if x == math.Trunc(x) && x >= -32768 && x <= 32767 {
		return 3, 3
	}
	if float64(float32(x)) == x {
		return 5, 5
	}
	return 9, 9
}

func sameNumber(x, y float64) bool {
	if x != x || y != y {
		return x != x && y != y
	}
	return x == y
}

func checkDouble(r *scalarRig, x float64) string {
	b, out, rest, err := r.trip(x)
	if err != nil {
		return err.Error()
	}
	la, lb := doubleLens(x)
	if len(b) != la && len(b) != lb {
		return fmt.Sprintf("double %v (bits %016x) emitted in %d octets (%x), shortest exact form is %d", x, math.Float64bits(x), len(b), b, la)
	}
	o, ok := out.(float64)
	if !ok || !sameNumber(x, o) || rest != 0 {
		return fmt.Sprintf("double %v (bits %016x, wire %x) decoded as %T %v, %d octets left", x, math.Float64bits(x), b, out, out, rest)
	}
	if x == x && x != 0 && math.Float64bits(o) != math.Float64bits(x) {
		return fmt.Sprintf("double bits %016x (wire %x) decoded as bits %016x", math.Float64bits(x), b, math.Float64bits(o))
	}
	d := refcodec.Decoder{B: b}
	a, derr := d.Value()
	if derr != nil || a.K != av.Double || !sameNumber(a.Float(), x) || d.Pos != len(b) {
		return fmt.Sprintf("double %v emitted as %x, which the format reads as %v (err %v)", x, b, shortAV(a), derr)
	}
	return ""
}

// checkFloatCarrier: float32 / float64 in struct field, list element, map value.
func checkFloatCarrier(x float64) string {
	f32 := float32(x)
	c := &zoo.FloatFields{F32: f32, F64: x, L32: []float32{1.5, f32, f32}, L64: []float64{x, 2.5, x},
		M64: map[string]float64{"a": x, "": x}, M32: map[string]float32{"a": f32}}
	tm, nm := hessian.ExtractTypeNameMap(c)
	var b []byte
	var err error
	var out interface{}
	if pv, st := guard(func() { b, err = hessian.ToBytes(c, nm) }); pv != nil || err != nil {
		return fmt.Sprintf("carrier encode failed: %v %v [%s]", err, pv, st)
	}
	if pv, st := guard(func() { out, err = hessian.ToObject(b, tm) }); pv != nil || err != nil {
		return fmt.Sprintf("carrier decode failed: %v %v [%s]", err, pv, st)
	}
	if cerr := vcmp.Equal(c, out, nm); cerr != nil {
		return cerr.Error()
	}
	// bit-exactness of float32 values (vcmp forgives only NaN payload and zero sign)
	o := out.(*zoo.FloatFields)
	if f32 == f32 && f32 != 0 {
		if math.Float32bits(o.F32) != math.Float32bits(f32) || len(o.L32) != 3 || math.Float32bits(o.L32[1]) != math.Float32bits(f32) {
			return fmt.Sprintf("float32 bits %08x not recovered exactly: field %08x", math.Float32bits(f32), math.Float32bits(o.F32))
		}
	}
	// a typed map, then lists of both widths, the wider type twice
	mix := &zoo.FloatMix{Rates: zoo.RateMap{"r": x}, Ticks: []float32{f32, 0.5}, Bid: []float64{x, 2.5}, Ask: []float64{0.1, x, x}, Last: []float32{f32}}
	if stage, rerr, _ := roundTrip(mix); rerr != nil {
		return fmt.Sprintf("typed map followed by []float32, []float64, []float64: %s: %v", stage, rerr)
	}
	// lists whose element type is a named float type
	named := &zoo.NamedLists{R: []zoo.Ratio{zoo.Ratio(x), 2.5, zoo.Ratio(x)}, Sm: []zoo.Small{zoo.Small(f32), 0.5}}
	if stage, rerr, _ := roundTrip(named); rerr != nil {
		return fmt.Sprintf("lists of named float types ([]Ratio with Ratio float64, []Small with Small float32): %s: %v", stage, rerr)
	}
	// every double on the wire in its shortest exact form
	a, _, derr := refcodec.Decode(b)
	if derr != nil {
		return "carrier bytes not well-formed: " + derr.Error()
	}
	// what is on the wire is the value itself: a float32 widened bit for bit, not some double that narrows
	// back to it (an observer that does not narrow - a Java peer, an interface slot - sees the difference)
	if want, perr := zoo.Project(c, nm); perr == nil {
		if w, g := av.Canon(want, c02Canon), av.Canon(a, c02Canon); w != g {
			return fmt.Sprintf("the stream does not denote the carrier's values: want %s got %s", clipDiff(w, g), clipDiff(g, w))
		}
	}
	msg := ""
	av.Walk(a, func(n *av.V) {
		if n.K == av.Double && n.W != nil && msg == "" {
			la, lb := doubleLens(n.Float())
			if l := n.W.End - n.W.Start; l != la && l != lb {
				msg = fmt.Sprintf("double %v written in %d octets inside a container, shortest exact form is %d", n.Float(), l, la)
			}
		}
	})
	return msg
}

// checkDoubleStream: a []float64 of n values (all of form `form` octets, after a string
// pad of `pad` characters) decoded through the buffered one-shot path; long enough
// that values straddle the decoder's internal buffer refills at every alignment.
func checkDoubleStream(vals []float64, pad int) string {
	c := &zoo.FloatFields{L64: vals, M64: map[string]float64{mkString(0, pad, 0, 0, 1): 1}}
	stage, err, plain := roundTrip(c)
	if err != nil {
		return fmt.Sprintf("list of %d doubles after %d pad characters: %s: %v", len(vals), pad, stage, err)
	}
	if pad == 0 {
		_, nm := hessian.ExtractTypeNameMap(c)
		if nerr := nestedEncode(c, &zoo.FloatFields{F64: 0.1, L64: []float64{1e-300, 2.5, 1e300}}, nm, plain); nerr != nil {
			return nerr.Error()
		}
	}
	top := make([]interface{}, 0, len(vals)+1)
	top = append(top, mkString(0, pad, 0, 0, 2))
	for _, v := range vals {
		top = append(top, v)
	}
	stage, err, _ = roundTrip(top)
	if err != nil {
		return fmt.Sprintf("untyped list of %d doubles after %d pad characters: %s: %v", len(vals), pad, stage, err)
	}
	return ""
}

func TestC08(t *testing.T) {
	r := rec.For("C08")
	rig := newScalarRig()
	shard, nshards := shardInfo()
	fail := func(x float64, msg string) {
		directFail(t, "C08", map[string]interface{}{"bits": fmt.Sprintf("0x%016x", math.Float64bits(x)), "value": strconv.FormatFloat(x, 'g', -1, 64)}, "C08 %v: %s", x, msg)
	}
	if rc := replayCase(); rc != nil {
		if u, ok := caseUint(rc, "bits"); ok {
			x := math.Float64frombits(u)
			if msg := checkDouble(rig, x); msg != "" {
				t.Fatalf("replay: %s", msg)
			}
			if msg := checkFloatCarrier(x); msg != "" {
				t.Fatalf("replay: %s", msg)
			}
		}
		return
	}
	nsample := 0
	one := func(x float64, carrier bool) {
		if msg := checkDouble(rig, x); msg != "" {
			fail(x, msg)
		}
		r.Eval()
		if carrier {
			if msg := checkFloatCarrier(x); msg != "" {
				fail(x, msg)
			}
			r.Eval()
		}
		nsample++
		if nsample <= 3 || nsample&(nsample-1) == 0 {
			b := append([]byte{}, rig.buf.Bytes()...)
			r.Sample(func() interface{} {
				return map[string]interface{}{"value": strconv.FormatFloat(x, 'g', -1, 64), "bits": fmt.Sprintf("%016x", math.Float64bits(x)), "bytes": fmt.Sprintf("%x", b)}
			})
		}
	}
	hashed := func(x float64) {
		if math.Float64bits(x) != 0 && x != 1 {
			r.NonTrivial(math.Float64bits(x))
		}
	}
	// ---- specials, powers of two and their neighbours, subnormals (every shard)
	specials := []float64{0, math.Copysign(0, -1), 1, -1, 2, 100, 127, 128, -128, -129, 32767, 32768, -32768, -32769, 0.5, -0.5, 1.5,
		math.Inf(1), math.Inf(-1), math.NaN(), math.Float64frombits(0x7ff8000000000001), math.Float64frombits(0xfff0000000000001), math.Float64frombits(0x7ff0000000000001),
		math.MaxFloat32, -math.MaxFloat32, math.SmallestNonzeroFloat32, math.MaxFloat64, -math.MaxFloat64, math.SmallestNonzeroFloat64,
		math.Float64frombits(0x000fffffffffffff), math.Float64frombits(0x0010000000000000), float64(math.MaxInt64), float64(math.MinInt64), 1 << 53, 1<<53 + 2, 9.3e18, -9.3e18, 1e300, -1e300}
	for _, x := range specials {
		one(x, true)
		hashed(x)
	}
	for k := -1074; k <= 1023; k++ {
		p := math.Ldexp(1, k)
		for _, x := range []float64{p, -p, math.Nextafter(p, math.Inf(1)), math.Nextafter(p, 0), math.Nextafter(-p, math.Inf(-1)), math.Nextafter(-p, 0)} {
			one(x, k%8 == 0)
			hashed(x)
		}
	}
	r.Label("specials+powers-of-two")
	// ---- long messages: values of each wire length at every alignment to 4096-octet boundaries
	{
		rs := seedFor("C08stream")
		for _, form := range []string{"9", "5", "3", "mixed"} {
			for pad := 0; pad < 10; pad++ {
				vals := make([]float64, 1100)
				for i := range vals {
					switch form {
					case "9":
						vals[i] = math.Float64frombits(rs.next()&^(0x7ff<<52) | uint64(1000+rs.next()%40)<<52)
					case "5":
						vals[i] = float64(math.Float32frombits(uint32(rs.next())&^(0xff<<23) | uint32(100+rs.next()%50)<<23))
					case "3":
						vals[i] = float64(int64(rs.next()%60000) - 30000)
					default:
						vals[i] = []float64{0, 1, 7, 300, 0.5, 0.1, -2.25, 1e100}[rs.next()%8]
					}
				}
				if msg := checkDoubleStream(vals, pad); msg != "" {
					directFail(t, "C08", map[string]interface{}{"stream_form": form, "pad": fmt.Sprint(pad)}, "C08 %s-octet doubles in a long message: %s", form, msg)
				}
				r.EvalN(int64(2 * len(vals)))
				r.NonTrivial(av.Hash(fmt.Sprint("stream", form, pad)))
			}
		}
		r.Label("long-messages-across-buffer-refills")
	}
	rng := seedFor("C08")
	if rec.Thorough() {
		// ---- all 2^32 float32 bit patterns, widened
		lo := uint64(shard) * (1 << 32) / uint64(nshards)
		hi := uint64(shard+1) * (1 << 32) / uint64(nshards)
		for u := lo; u < hi; u++ {
			x := float64(math.Float32frombits(uint32(u)))
			if msg := checkDouble(rig, x); msg != "" {
				fail(x, msg)
			}
			if u&0xfffff == 0 {
				one(x, true)
			}
		}
		r.EvalN(int64(hi - lo))
		// non-trivial: every pattern except +0 and 1.0 (exact count for this shard's range)
		nt := int64(hi - lo)
		for _, triv := range []uint64{0, uint64(math.Float32bits(1))} {
			if triv >= lo && triv < hi {
				nt--
			}
		}
		r.NonTrivialExact(nt)
		r.Note("float32_patterns_enumerated", fmt.Sprintf("[0x%08x,0x%08x)", lo, hi))
		r.LabelN("float32-exhaustive", int64(hi-lo))
	}
	// ---- all integers in [-70000, 70000] (shard 0; cheap) and random 64-bit patterns
	if shard == 0 {
		for i := -70000; i <= 70000; i++ {
			one(float64(i), i%64 == 0)
			hashed(float64(i))
			if i%7 == 0 {
				h := float64(i) + 0.5
				one(h, false)
				hashed(h)
			}
		}
		r.Label("integers-70000")
		// whole numbers between 2^24 and 2^33 that are not float32 values (only a float32-exact value may
		// take the 5-octet form), and their neighbours that are
		for k := uint(24); k <= 33; k++ {
			for _, d := range []int64{-3, -2, -1, 1, 2, 3, 5, 1<<(k-24) + 1, 1 << (k - 23)} {
				for _, sgn := range []float64{1, -1} {
					one(sgn*float64(int64(1)<<k+d), d%2 == 0)
				}
			}
		}
		for _, v := range []float64{123456789, 16777217, 99999999, 2147483647, -2147483648, 4294967295, 1e9 + 1, 1e8 + 1, 33554433} {
			one(v, true)
			one(-v, false)
		}
		r.Label("integers-beyond-float32-precision")
	}
	n := 200000
	if rec.Thorough() {
		n = 3200000
	}
	// splitmix64 is a bijection of a counter, so the patterns of one stream are
	// pairwise distinct by construction: counted exactly instead of hashed.
	var ntRandom int64
	for i := 0; i < n; i++ {
		x := math.Float64frombits(rng.next())
		one(x, i%64 == 0)
		if math.Float64bits(x) != 0 && x != 1 {
			ntRandom++
		}
	}
	r.NonTrivialExact(ntRandom)
	r.LabelN("random-64-bit-patterns", int64(n))
}
