package props

import (
	"flag"
	"fmt"
	"os"
	"runtime"
	"runtime/debug"
	"strings"
	"testing"
	"time"

	hessian "github.com/vogo/gohessian"
	"pgregory.net/rapid"

	"verif/harness/rec"
)

// silent replaces the library logger (public SetLogger): the default prints a
// line per swallowed read error and would dominate run time.
type silent struct{}

func (silent) Info(args ...interface{})                  {}
func (silent) Warn(args ...interface{})                  {}
func (silent) Error(args ...interface{})                 {}
func (silent) Debug(args ...interface{})                 {}
func (silent) Infof(format string, args ...interface{})  {}
func (silent) Warnf(format string, args ...interface{})  {}
func (silent) Errorf(format string, args ...interface{}) {}
func (silent) Debugf(format string, args ...interface{}) {}
func (silent) Printf(format string, args ...interface{}) {}
func (silent) Println(args ...interface{})               {}

func TestMain(m *testing.M) {
	hessian.SetLogger(silent{})
	// unbounded recursion inside the library (C04, C16) should die quickly and cheaply
	debug.SetMaxStack(256 << 20)
	if os.Getenv("VERIF_WORKER") != "" {
		workerMain()
		return
	}
	startWatchdog()
	code := m.Run()
	rec.FlushAll()
	os.Exit(code)
}

// startWatchdog: shortly before go test's own time limit expires (its dump cannot show the stack of a goroutine
// that is running on another thread), stop the world, print every goroutine's stack behind a marker line and
// leave. The driver reads from it whether the goroutine that does not come back sits in library code.
func startWatchdog() {
	if !flag.Parsed() {
		flag.Parse()
	}
	f := flag.Lookup("test.timeout")
	if f == nil {
		return
	}
	d, err := time.ParseDuration(f.Value.String())
	if err != nil || d <= 0 {
		return
	}
	grace := d / 10
	if grace > 20*time.Second {
		grace = 20 * time.Second
	}
	go func() {
		time.Sleep(d - grace)
		buf := make([]byte, 64<<20)
		buf = buf[:runtime.Stack(buf, true)]
		fmt.Fprintf(os.Stderr, "\nVERIF-WATCHDOG: no result after %v; stacks of all goroutines follow\n\n%s\n", d-grace, buf)
		rec.FlushAll()
		os.Exit(4)
	}()
}

// harnessFailure is set (for good) when the machinery contradicted itself: whatever the library does in the
// cases that follow - rapid goes on shrinking - the run is inconclusive, never a violation.
var harnessFailure string

// writeCaseFailure records a failing rapid case, unless the harness has disqualified itself.
func writeCaseFailure(f rec.Failure) {
	if harnessFailure != "" {
		rec.WriteFailure(rec.Failure{Prop: f.Prop, Test: f.Test, Kind: "harness", Message: harnessFailure})
		return
	}
	rec.WriteFailure(f)
}

// caseInfo is what a failing case leaves behind for the replay file.
type caseInfo struct {
	fields map[string]interface{}
}

func (c *caseInfo) set(k string, v interface{}) {
	if c.fields == nil {
		c.fields = map[string]interface{}{}
	}
	c.fields[k] = v
}

// check runs a rapid property with failure capture. The property function gets
// the rapid.T and a caseInfo to describe the case in.
func check(t *testing.T, prop string, f func(rt *rapid.T, c *caseInfo)) {
	t.Helper()
	rapid.Check(t, func(rt *rapid.T) {
		c := &caseInfo{}
		defer func() {
			if p := recover(); p != nil {
				// a panic that is not rapid's own control flow: report as failure
				if isRapidPanic(p) {
					if rt.Failed() {
						writeCaseFailure(rec.Failure{Prop: prop, Test: t.Name(), Kind: "rapid", Message: lastMsg(c), Case: c.fields})
					}
					panic(p)
				}
				c.set("panic", fmt.Sprint(p))
				c.set("stack", trimStack(string(debug.Stack())))
				writeCaseFailure(rec.Failure{Prop: prop, Test: t.Name(), Kind: "rapid", Message: "panic: " + fmt.Sprint(p), Case: c.fields})
				panic(p)
			}
			if rt.Failed() {
				writeCaseFailure(rec.Failure{Prop: prop, Test: t.Name(), Kind: "rapid", Message: lastMsg(c), Case: c.fields})
			}
		}()
		f(rt, c)
	})
}

func lastMsg(c *caseInfo) string {
	if c.fields == nil {
		return ""
	}
	if m, ok := c.fields["message"].(string); ok {
		return m
	}
	return ""
}

// isRapidPanic recognises rapid's internal control-flow panics (test failure,
// invalid data / skip) which must propagate untouched.
func isRapidPanic(p interface{}) bool {
	s := fmt.Sprintf("%T", p)
	return strings.HasPrefix(s, "rapid.")
}

func trimStack(s string) string {
	lines := strings.Split(s, "\n")
	var out []string
	for _, l := range lines {
		if strings.Contains(l, "gohessian") || strings.Contains(l, "/repo/") {
			out = append(out, strings.TrimSpace(l))
		}
		if len(out) >= 12 {
			break
		}
	}
	return strings.Join(out, " | ")
}

// failf records the message in the case info and fails the rapid case.
func failf(rt *rapid.T, c *caseInfo, format string, a ...interface{}) {
	msg := fmt.Sprintf(format, a...)
	c.set("message", msg)
	rt.Fatalf("%s", msg)
}

// guard runs f and converts a library panic into (panic value, stack).
func guard(f func()) (pv interface{}, stack string) {
	defer func() {
		if p := recover(); p != nil {
			pv = p
			stack = trimStack(string(debug.Stack()))
		}
	}()
	f()
	return nil, ""
}

func hexClip(b []byte, max int) string {
	if len(b) > max {
		return fmt.Sprintf("%x...(%d octets)", b[:max], len(b))
	}
	return fmt.Sprintf("%x", b)
}
