package props

import (
	"bytes"
	"fmt"
	"math"
	"reflect"
	"strconv"
	"testing"
	"time"

	hessian "github.com/vogo/gohessian"

	"verif/harness/av"
	"verif/harness/rec"
	"verif/harness/refcodec"
	"verif/harness/vcmp"
	"verif/harness/zoo"
)

// Shortest forms, computed from the ranges the format defines.
func intLen(v int32) int {
	switch {
	case v >= -16 && v <= 47:
		return 1
	case v >= -2048 && v <= 2047:
		return 2
	case v >= -262144 && v <= 262143:
		return 3
	}
	return 5
}

func longLen(v int64) int {
	switch {
	case v >= -8 && v <= 15:
		return 1
	case v >= -2048 && v <= 2047:
		return 2
	case v >= -262144 && v <= 262143:
		return 3
	case v >= math.MinInt32 && v <= math.MaxInt32:
		return 5
	}
	return 9
}

// scalarRig streams single values through the public Encoder/Decoder API on
// reusable buffers.
type scalarRig struct {
	buf bytes.Buffer
	enc *hessian.Encoder
	rd  *bytes.Reader
	dec *hessian.Decoder
	n   int
	ser hessian.Serializer
}

func newScalarRig() *scalarRig {
	r := &scalarRig{}
	r.enc = hessian.NewEncoder(&r.buf, nil)
	r.rd = bytes.NewReader(nil)
	r.dec = hessian.NewDecoder(r.rd, nil)
	return r
}

func (r *scalarRig) trip(v interface{}) (b []byte, out interface{}, rest int, err error) {
	r.buf.Reset()
	if err = r.enc.WriteObject(v); err != nil {
		return nil, nil, 0, fmt.Errorf("encode: %v", err)
	}
	b = r.buf.Bytes()
	r.rd.Reset(b)
	out, err = r.dec.ReadObject()
	if err != nil {
		return b, nil, 0, fmt.Errorf("decode: %v", err)
	}
	// the equivalent entry points must agree: the first few thousand values of a run (the boundary values) and
	// every 32nd one afterwards also go through the one-shot functions
	r.n++
	if r.n <= 6000 || r.n%32 == 0 {
		if r.ser == nil {
			r.ser = hessian.NewSerializer(nil, nil)
		}
		if b2, e2 := hessian.ToBytes(v, nil); e2 != nil || !bytes.Equal(b2, b) {
			return b, nil, 0, fmt.Errorf("ToBytes emits %x (err %v), Encoder.WriteObject %x", b2, e2, b)
		}
		if b3, e3 := r.ser.ToBytes(v); e3 != nil || !bytes.Equal(b3, b) {
			return b, nil, 0, fmt.Errorf("Serializer.ToBytes emits %x (err %v), Encoder.WriteObject %x", b3, e3, b)
		}
		for i, f := range []func() (interface{}, error){
			func() (interface{}, error) { return hessian.ToObject(b, nil) },
			func() (interface{}, error) { return r.ser.ToObject(b) },
			func() (interface{}, error) { return hessian.NewDecoder(nil, nil).Decode(b) },
		} {
			o2, e2 := f()
			if e2 != nil || !sameScalar(o2, out) {
				return b, nil, 0, fmt.Errorf("%s decodes %x to %T %v (err %v), Decoder.ReadObject to %T %v", []string{"ToObject", "Serializer.ToObject", "Decoder.Decode"}[i], b, o2, o2, e2, out, out)
			}
		}
	}
	return b, out, r.rd.Len(), nil
}

// sameScalar: equal decoded scalars (floats by bit pattern, so that NaN equals NaN).
func sameScalar(a, b interface{}) bool {
	if fa, ok := a.(float64); ok {
		fb, ok2 := b.(float64)
		return ok2 && (math.Float64bits(fa) == math.Float64bits(fb) || (fa != fa && fb != fb))
	}
	if ta, ok := a.(time.Time); ok {
		tb, ok2 := b.(time.Time)
		return ok2 && ta.Equal(tb)
	}
	return reflect.DeepEqual(a, b)
}

func checkInt32(r *scalarRig, v int32) string {
	b, out, rest, err := r.trip(v)
	if err != nil {
		return err.Error()
	}
	if len(b) != intLen(v) {
		return fmt.Sprintf("int %d emitted in %d octets (%x), shortest form is %d", v, len(b), b, intLen(v))
	}
	if o, ok := out.(int32); !ok || o != v || rest != 0 {
		return fmt.Sprintf("int %d (%x) decoded as %T %v, %d octets left", v, b, out, out, rest)
	}
	d := refcodec.Decoder{B: b}
	a, derr := d.Value()
	if derr != nil || a.K != av.Int || a.I != int64(v) || d.Pos != len(b) {
		return fmt.Sprintf("int %d emitted as %x, which the format reads as %v (err %v)", v, b, shortAV(a), derr)
	}
	return ""
}

func checkInt64(r *scalarRig, v int64) string {
	b, out, rest, err := r.trip(v)
	if err != nil {
		return err.Error()
	}
	if len(b) != longLen(v) {
		return fmt.Sprintf("long %d emitted in %d octets (%x), shortest form is %d", v, len(b), b, longLen(v))
	}
	if o, ok := out.(int64); !ok || o != v || rest != 0 {
		return fmt.Sprintf("long %d (%x) decoded as %T %v, %d octets left", v, b, out, out, rest)
	}
	d := refcodec.Decoder{B: b}
	a, derr := d.Value()
	if derr != nil || a.K != av.Long || a.I != v || d.Pos != len(b) {
		return fmt.Sprintf("long %d emitted as %x, which the format reads as %v (err %v)", v, b, shortAV(a), derr)
	}
	return ""
}

var intKinds = []reflect.Kind{reflect.Int8, reflect.Int16, reflect.Int32, reflect.Int, reflect.Int64, reflect.Uint8, reflect.Uint16, reflect.Uint32, reflect.Uint, reflect.Uint64}

func kindFieldName(k reflect.Kind) string {
	switch k {
	case reflect.Int8:
		return "I8"
	case reflect.Int16:
		return "I16"
	case reflect.Int32:
		return "I32"
	case reflect.Int:
		return "I"
	case reflect.Int64:
		return "I64"
	case reflect.Uint8:
		return "U8"
	case reflect.Uint16:
		return "U16"
	case reflect.Uint32:
		return "U32"
	case reflect.Uint:
		return "U"
	}
	return "U64"
}

// representable: v (as a mathematical integer; u for values above MaxInt64)
// fits Go kind k.
func setKind(dst reflect.Value, v int64, u uint64, useU bool) bool {
	switch dst.Kind() {
	case reflect.Int8, reflect.Int16, reflect.Int32, reflect.Int, reflect.Int64:
		if useU || dst.OverflowInt(v) {
			return false
		}
		dst.SetInt(v)
	default:
		if !useU {
			if v < 0 {
				return false
			}
			u = uint64(v)
		}
		if dst.OverflowUint(u) {
			return false
		}
		dst.SetUint(u)
	}
	return true
}

// wireIsInt: kinds written as 32-bit int.
func wireIsInt(k reflect.Kind) bool {
	switch k {
	case reflect.Int8, reflect.Int16, reflect.Int32, reflect.Int, reflect.Uint8, reflect.Uint16:
		return true
	}
	return false
}

// shortestForms checks, on the reference decoding of a message, that every
// int and long node was written in its shortest form.
func shortestForms(b []byte) string {
	a, _, err := refcodec.Decode(b)
	if err != nil {
		return "not well-formed: " + err.Error()
	}
	msg := ""
	av.Walk(a, func(x *av.V) {
		if msg != "" || x.W == nil {
			return
		}
		n := x.W.End - x.W.Start
		switch x.K {
		case av.Int:
			if n != intLen(int32(x.I)) {
				msg = fmt.Sprintf("int %d written in %d octets at offset %d, shortest is %d", x.I, n, x.W.Start, intLen(int32(x.I)))
			}
		case av.Long:
			if n != longLen(x.I) {
				msg = fmt.Sprintf("long %d written in %d octets at offset %d, shortest is %d", x.I, n, x.W.Start, longLen(x.I))
			}
		}
	})
	return msg
}

// checkKinds pushes one mathematical integer through every Go integer kind that
// can hold it, in the four positions. Returns the number of (kind, position)
// evaluations and the first failure.
func checkKinds(v int64, u uint64, useU bool) (int, string) {
	n := 0
	vs := strconv.FormatInt(v, 10)
	if useU {
		vs = strconv.FormatUint(u, 10)
	}
	// ---- top level, one kind at a time
	for _, k := range intKinds {
		x := reflect.New(kindType(k)).Elem()
		if !setKind(x, v, u, useU) {
			continue
		}
		n++
		var b []byte
		var err error
		var out interface{}
		if pv, st := guard(func() { b, err = hessian.ToBytes(x.Interface(), nil) }); pv != nil {
			return n, fmt.Sprintf("top-level %v %s: panic in ToBytes: %v [%s]", k, vs, pv, st)
		}
		fitsWire := true
		if wireIsInt(k) && (useU || v < math.MinInt32 || v > math.MaxInt32) {
			fitsWire = false
		}
		if err != nil {
			if fitsWire {
				return n, fmt.Sprintf("top-level %v %s: encode failed: %v", k, vs, err)
			}
			continue // too large for the wire type of its kind: failing is allowed
		}
		if pv, st := guard(func() { out, err = hessian.ToObject(b, nil) }); pv != nil || err != nil {
			return n, fmt.Sprintf("top-level %v %s (%x): decode failed: %v %v [%s]", k, vs, b, err, pv, st)
		}
		exact := false
		switch o := out.(type) {
		case int32:
			exact = !useU && int64(o) == v
		case int64:
			if useU {
				exact = uint64(o) == u // carried by 64-bit pattern
			} else {
				exact = o == v
			}
		}
		if !exact {
			return n, fmt.Sprintf("top-level %v %s silently altered: emitted %x, decoded %T %v", k, vs, b, out, out)
		}
		if fitsWire {
			want := 0
			if wireIsInt(k) {
				want = intLen(int32(v))
				if _, ok := out.(int32); !ok {
					return n, fmt.Sprintf("top-level %v %s came back as %T, canonical wire type is int32", k, vs, out)
				}
			} else {
				want = longLen(int64(x2i(x)))
				if _, ok := out.(int64); !ok {
					return n, fmt.Sprintf("top-level %v %s came back as %T, canonical wire type is int64", k, vs, out)
				}
			}
			if len(b) != want {
				return n, fmt.Sprintf("top-level %v %s emitted in %d octets (%x), shortest form is %d", k, vs, len(b), b, want)
			}
		}
	}
	// ---- struct field, list element, map key, map value: all kinds at once
	carriers := []interface{}{&zoo.IntFields{}, &zoo.IntLists{}, &zoo.IntMapKeys{}, &zoo.IntMapVals{}}
	posName := []string{"struct field", "list element", "map key", "map value"}
	for ci, c := range carriers {
		cv := reflect.ValueOf(c).Elem()
		any := false
		narrowed := false
		for _, k := range intKinds {
			f := cv.FieldByName(kindFieldName(k))
			if !f.IsValid() {
				continue
			}
			x := reflect.New(kindType(k)).Elem()
			if !setKind(x, v, u, useU) {
				continue
			}
			if wireIsInt(k) && (useU || v < math.MinInt32 || v > math.MaxInt32) {
				narrowed = true // only Go int can get here
			}
			any = true
			n++
			switch ci {
			case 0:
				f.Set(x)
			case 1:
				s := reflect.MakeSlice(f.Type(), 3, 3)
				s.Index(1).Set(x)
				s.Index(2).Set(x)
				f.Set(s)
			case 2:
				m := reflect.MakeMap(f.Type())
				m.SetMapIndex(x, reflect.ValueOf("v"))
				f.Set(m)
			case 3:
				m := reflect.MakeMap(f.Type())
				m.SetMapIndex(reflect.ValueOf("k"), x)
				m.SetMapIndex(reflect.ValueOf(""), x)
				f.Set(m)
			}
		}
		if !any {
			continue
		}
		if narrowed {
			// a Go int beyond 32 bits: the call must fail or carry it exactly
			tm, nm := hessian.ExtractTypeNameMap(c)
			var b []byte
			var err error
			var out interface{}
			if pv, st := guard(func() { b, err = hessian.ToBytes(c, nm) }); pv != nil {
				return n, fmt.Sprintf("%s, int %s: panic in ToBytes: %v [%s]", posName[ci], vs, pv, st)
			}
			if err != nil {
				continue
			}
			if pv, _ := guard(func() { out, err = hessian.ToObject(b, tm) }); pv != nil || err != nil {
				return n, fmt.Sprintf("%s, int %s: encode succeeded but decode failed: %v %v", posName[ci], vs, err, pv)
			}
			if cerr := vcmp.Equal(c, out, nm); cerr != nil {
				return n, fmt.Sprintf("%s: Go int %s silently altered: %v", posName[ci], vs, cerr)
			}
			continue
		}
		stage, err, b := roundTrip(c)
		if err != nil {
			return n, fmt.Sprintf("%s, value %s: %s: %v", posName[ci], vs, stage, err)
		}
		if msg := shortestForms(b); msg != "" {
			return n, fmt.Sprintf("%s, value %s: %s (bytes %s)", posName[ci], vs, msg, hexClip(b, 120))
		}
	}
	// ---- lists whose element type is a named integer type ([]Perm with Perm uint8, a named byte slice):
	// lists of integers on the wire, whatever the element kind
	if !useU && v >= math.MinInt8 && v <= math.MaxUint8 {
		nl := &zoo.NamedLists{ID: []zoo.BigID{1, 2}}
		if v >= 0 {
			nl.P = []zoo.Perm{0, zoo.Perm(v), zoo.Perm(v)}
			nl.D = zoo.Digest{byte(v), 1, byte(v)}
			nl.PM = map[string][]zoo.Perm{"k": {zoo.Perm(v)}}
			nl.ID = []zoo.BigID{zoo.BigID(v), 1 << 40}
		}
		if v <= math.MaxInt8 {
			nl.Lv = []zoo.Level{zoo.Level(v), -1, zoo.Level(v)}
		}
		n++
		stage, err, b := roundTrip(nl)
		if err != nil {
			return n, fmt.Sprintf("lists of named integer types, value %s: %s: %v", vs, stage, err)
		}
		// maps in struct fields keyed by named integer types of both widths
		coded := &zoo.Coded{ByStatus: map[zoo.Status]string{zoo.Status(v): "s", 7: "t"}, ByCode: map[zoo.Code]string{zoo.Code(v): "c", zoo.Code(v) << 33: "d"}, U: uint64(v) + 1<<63, V: uint(1<<63) + uint(v&0x7f)}
		if v >= 0 {
			coded.ByID = map[zoo.BigID]int32{zoo.BigID(v): 1, 1 << 63: 2}
		}
		if stage, err, _ := roundTrip(coded); err != nil {
			return n, fmt.Sprintf("maps keyed by named integer types and unsigned fields beyond 2^63, value %s: %s: %v", vs, stage, err)
		}
		if msg := shortestForms(b); msg != "" {
			return n, fmt.Sprintf("lists of named integer types, value %s: %s (bytes %s)", vs, msg, hexClip(b, 120))
		}
	}
	return n, ""
}

func x2i(x reflect.Value) int64 {
	switch x.Kind() {
	case reflect.Int8, reflect.Int16, reflect.Int32, reflect.Int, reflect.Int64:
		return x.Int()
	}
	return int64(x.Uint())
}

func kindType(k reflect.Kind) reflect.Type {
	switch k {
	case reflect.Int8:
		return reflect.TypeOf(int8(0))
	case reflect.Int16:
		return reflect.TypeOf(int16(0))
	case reflect.Int32:
		return reflect.TypeOf(int32(0))
	case reflect.Int:
		return reflect.TypeOf(int(0))
	case reflect.Int64:
		return reflect.TypeOf(int64(0))
	case reflect.Uint8:
		return reflect.TypeOf(uint8(0))
	case reflect.Uint16:
		return reflect.TypeOf(uint16(0))
	case reflect.Uint32:
		return reflect.TypeOf(uint32(0))
	case reflect.Uint:
		return reflect.TypeOf(uint(0))
	}
	return reflect.TypeOf(uint64(0))
}

// interesting64 lists every form boundary +-3 and every power of two +-1.
// encLongRef: the shortest long form, written from the ranges of the document.
func encLongRef(v int64) []byte {
	switch {
	case v >= -8 && v <= 15:
		return []byte{byte(0xe0 + v)}
	case v >= -2048 && v <= 2047:
		return []byte{byte(0xf8 + (v >> 8)), byte(v)}
	case v >= -262144 && v <= 262143:
		return []byte{byte(0x3c + (v >> 16)), byte(v >> 8), byte(v)}
	case v >= math.MinInt32 && v <= math.MaxInt32:
		return []byte{0x59, byte(v >> 24), byte(v >> 16), byte(v >> 8), byte(v)}
	}
	return []byte{'L', byte(v >> 56), byte(v >> 48), byte(v >> 40), byte(v >> 32), byte(v >> 24), byte(v >> 16), byte(v >> 8), byte(v)}
}

var c07CrossTM = func() map[string]reflect.Type {
	tm, _ := hessian.ExtractTypeNameMap(&zoo.IntFields{})
	tm["[long"] = reflect.TypeOf([]int64{})
	tm["[int"] = reflect.TypeOf([]int32{})
	tm["[int8"], tm["[int16"] = reflect.TypeOf([]int8{}), reflect.TypeOf([]int16{})
	tm["[uint16"], tm["[uint32"] = reflect.TypeOf([]uint16{}), reflect.TypeOf([]uint32{})
	return tm
}()

// checkCrossWidth: a peer that chooses the number width by value sends a 32-bit integer in int form into a
// list or field the Go side declares 64 bits wide, and in long form into a list declared 32 bits wide: the same
// number must arrive. (For struct FIELDS the unchanged tree refuses a value of the other width - a declared-type
// mismatch between the peers, which the statement does not cover - and nothing is demanded there.)
func checkCrossWidth(v int32) string {
	i, l := encInt(v), encLongRef(int64(v))
	cases := []struct {
		what string
		in   []byte
		want interface{}
	}{
		{"int-form elements in a typed list \"[long\"", append(append(append([]byte{0x73, 0x05, '[', 'l', 'o', 'n', 'g'}, i...), l...), i...), []int64{int64(v), int64(v), int64(v)}},
		{"long-form elements in a typed list \"[int\"", append(append(append([]byte{0x73, 0x04, '[', 'i', 'n', 't'}, l...), i...), l...), []int32{v, v, v}},
	}
	for _, c := range cases {
		var out interface{}
		var err error
		if pv, st := guard(func() { out, err = hessian.ToObject(c.in, c07CrossTM) }); pv != nil || err != nil {
			return fmt.Sprintf("%s (%x): decode failed: %v %v [%s]", c.what, c.in, err, pv, st)
		}
		if !reflect.DeepEqual(out, c.want) {
			return fmt.Sprintf("%s (%x): decoded %T %v, want %v", c.what, c.in, out, out, c.want)
		}
	}
	// a number that does not fit the declared field (the peer's class declares the field wider): refused, or carried
	// exactly - never stored as another number
	big := int64(v)<<32 + int64(v&0xff) + 5
	for _, fld := range []string{"i8", "i16", "i32", "u8", "u16"} {
		in := append(append([]byte{'C', 0x09, 'I', 'n', 't', 'F', 'i', 'e', 'l', 'd', 's', 0x91, byte(len(fld))}, fld...), 0x60)
		in = append(in, encLongRef(big)...)
		var out interface{}
		var err error
		if pv, _ := guard(func() { out, err = hessian.ToObject(in, c07CrossTM) }); pv != nil || err != nil {
			continue
		}
		if o, ok := out.(*zoo.IntFields); ok {
			got := map[string]int64{"i8": int64(o.I8), "i16": int64(o.I16), "i32": int64(o.I32), "u8": int64(o.U8), "u16": int64(o.U16)}[fld]
			if got != big {
				return fmt.Sprintf("the long %d sent for the field %s of IntFields (%x) was accepted and stored as %d", big, fld, in, got)
			}
		}
	}
	// the same for a number sent in the form the field's own kind is written in (int form for the kinds up to 32
	// bits, long form for uint32): the peer's class declares the field wider than the Go struct does (a Java int for
	// an int8, a Java long for a uint32). What does not fit is refused, never stored as another number.
	narrow := []struct {
		fld    string
		lo, hi int64
		long   bool
	}{
		{"i8", math.MinInt8, math.MaxInt8, false}, {"i16", math.MinInt16, math.MaxInt16, false},
		{"u8", 0, math.MaxUint8, false}, {"u16", 0, math.MaxUint16, false}, {"u32", 0, math.MaxUint32, true},
	}
	for _, n := range narrow {
		for _, x := range []int64{int64(v), int64(v) << 8, -int64(v), int64(v) + 1<<32} {
			if x >= n.lo && x <= n.hi {
				continue
			}
			var num []byte
			if n.long {
				num = encLongRef(x)
			} else if x >= math.MinInt32 && x <= math.MaxInt32 {
				num = encInt(int32(x))
			} else {
				continue
			}
			in := append(append([]byte{'C', 0x09, 'I', 'n', 't', 'F', 'i', 'e', 'l', 'd', 's', 0x91, byte(len(n.fld))}, n.fld...), 0x60)
			in = append(in, num...)
			var out interface{}
			var err error
			if pv, _ := guard(func() { out, err = hessian.ToObject(in, c07CrossTM) }); pv != nil || err != nil {
				continue
			}
			if o, ok := out.(*zoo.IntFields); ok {
				got := map[string]int64{"i8": int64(o.I8), "i16": int64(o.I16), "u8": int64(o.U8), "u16": int64(o.U16), "u32": int64(o.U32)}[n.fld]
				if got != x {
					return fmt.Sprintf("the number %d sent for the field %s of IntFields (%x), which cannot hold it, was accepted and stored as %d", x, n.fld, in, got)
				}
			}
			// ... and as the first of two elements of a typed list of that element kind
			ltyp := map[string]string{"i8": "[int8", "i16": "[int16", "u16": "[uint16", "u32": "[uint32"}[n.fld]
			if ltyp == "" {
				continue
			}
			lin := append(append([]byte{0x72, byte(len(ltyp))}, ltyp...), num...)
			lin = append(lin, 0x91)
			var lout interface{}
			if pv, _ := guard(func() { lout, err = hessian.ToObject(lin, c07CrossTM) }); pv != nil || err != nil {
				continue
			}
			if rv := reflect.ValueOf(lout); rv.IsValid() && rv.Kind() == reflect.Slice && rv.Len() == 2 {
				var got int64
				if e0 := rv.Index(0); e0.Kind() >= reflect.Uint && e0.Kind() <= reflect.Uint64 {
					got = int64(e0.Uint())
				} else if e0.Kind() >= reflect.Int && e0.Kind() <= reflect.Int64 {
					got = e0.Int()
				} else {
					continue
				}
				if got != x {
					return fmt.Sprintf("the number %d sent as an element of a typed list %s (%x), whose elements cannot hold it, was accepted and stored as %d", x, ltyp, lin, got)
				}
			}
		}
	}
	return ""
}

func interesting64() []int64 {
	var out []int64
	bounds := []int64{0, -16, 47, -8, 15, -2048, 2047, -262144, 262143, math.MinInt32, math.MaxInt32, math.MinInt64, math.MaxInt64,
		127, 128, 255, 256, 32767, 32768, 65535, 65536, math.MaxUint32, -128, -32768}
	for _, b := range bounds {
		for d := int64(-3); d <= 3; d++ {
			x := b + d
			if (d > 0 && x < b) || (d < 0 && x > b) {
				continue // wrapped
			}
			out = append(out, x)
		}
	}
	for k := uint(0); k < 63; k++ {
		p := int64(1) << k
		out = append(out, p-1, p, p+1, -p-1, -p, -p+1)
	}
	return out
}

func TestC07(t *testing.T) {
	r := rec.For("C07")
	rig := newScalarRig()
	shard, nshards := shardInfo()

	if rc := replayCase(); rc != nil {
		if v, ok := caseInt(rc, "value"); ok {
			if msg := checkInt64(rig, v); msg != "" {
				t.Fatalf("replay: %s", msg)
			}
			if v >= math.MinInt32 && v <= math.MaxInt32 {
				if msg := checkInt32(rig, int32(v)); msg != "" {
					t.Fatalf("replay: %s", msg)
				}
				if msg := checkCrossWidth(int32(v)); msg != "" {
					t.Fatalf("replay: %s", msg)
				}
			}
			if _, msg := checkKinds(v, 0, false); msg != "" {
				t.Fatalf("replay: %s", msg)
			}
		}
		if u, ok := caseUint(rc, "uvalue"); ok {
			if _, msg := checkKinds(0, u, true); msg != "" {
				t.Fatalf("replay: %s", msg)
			}
		}
		return
	}

	fail32 := func(v int32, msg string) {
		directFail(t, "C07", map[string]interface{}{"value": strconv.FormatInt(int64(v), 10), "width": "32"}, "C07 int32 %d: %s", v, msg)
	}
	fail64 := func(v int64, msg string) {
		directFail(t, "C07", map[string]interface{}{"value": strconv.FormatInt(v, 10), "width": "64"}, "C07 int64 %d: %s", v, msg)
	}
	samples := 0
	sample := func(v int64, b []byte) {
		samples++
		if samples <= 3 || samples&(samples-1) == 0 {
			r.Sample(func() interface{} { return map[string]interface{}{"value": v, "bytes": fmt.Sprintf("%x", b)} })
		}
	}

	// ---- boundaries and powers of two (every shard)
	var nt int64
	for _, v := range interesting64() {
		if msg := checkInt64(rig, v); msg != "" {
			fail64(v, msg)
		}
		r.Eval()
		if v >= math.MinInt32 && v <= math.MaxInt32 {
			if msg := checkInt32(rig, int32(v)); msg != "" {
				fail32(int32(v), msg)
			}
			r.Eval()
			if msg := checkCrossWidth(int32(v)); msg != "" {
				fail32(int32(v), msg)
			}
			r.EvalN(2)
		}
		n, msg := checkKinds(v, 0, false)
		r.EvalN(int64(n))
		if msg != "" {
			fail64(v, msg)
		}
		if v < -8 || v > 15 {
			r.NonTrivial(av.Hash("k" + strconv.FormatInt(v, 10)))
		}
	}
	// values above MaxInt64 for the unsigned 64-bit kinds
	for _, u := range []uint64{math.MaxInt64 + 1, math.MaxInt64 + 2, math.MaxUint64, math.MaxUint64 - 1, 1<<63 + 1<<31, 0xfffffffffffff800} {
		n, msg := checkKinds(0, u, true)
		r.EvalN(int64(n))
		if msg != "" {
			directFail(t, "C07", map[string]interface{}{"uvalue": strconv.FormatUint(u, 10)}, "C07 uint64 %d: %s", u, msg)
		}
		r.NonTrivial(av.Hash("u" + strconv.FormatUint(u, 10)))
	}
	r.Label("boundary-values")
	// ---- long messages: every int / long form at every alignment to the decoder's buffer refills
	{
		rs := seedFor("C07stream")
		for pad := 0; pad < 10; pad++ {
			l32 := make([]int32, 1200)
			l64 := make([]int64, 1200)
			for i := range l32 {
				sh := rs.next() % 32
				l32[i] = int32(rs.next()) >> sh
				l64[i] = int64(rs.next()) >> (rs.next() % 64)
			}
			c := &zoo.IntLists{I32: l32, I64: l64, I: []int{int(l32[0])}, U64: []uint64{uint64(l64[0])}}
			top := []interface{}{mkString(0, pad, 0, 0, 1), l32, l64}
			for _, v := range []interface{}{c, top} {
				if stage, err, _ := roundTrip(v); err != nil {
					directFail(t, "C07", map[string]interface{}{"stream_pad": fmt.Sprint(pad)}, "C07 lists of 1200 ints and longs after %d pad characters: %s: %v", pad, stage, err)
				}
			}
			r.EvalN(4800)
			r.NonTrivial(av.Hash(fmt.Sprint("stream", pad)))
		}
		r.Label("long-messages-across-buffer-refills")
	}

	rng := seedFor("C07")
	if rec.Thorough() {
		// ---- all 2^32 int32 values, split over the shards
		lo := int64(math.MinInt32) + int64(shard)*(1<<32)/int64(nshards)
		hi := int64(math.MinInt32) + int64(shard+1)*(1<<32)/int64(nshards)
		for v := lo; v < hi; v++ {
			if msg := checkInt32(rig, int32(v)); msg != "" {
				fail32(int32(v), msg)
			}
			if v&0xfffff == 0 {
				sample(v, rig.buf.Bytes())
			}
		}
		r.EvalN(hi - lo)
		// non-trivial = outside the one-octet range; exact count of this shard's share
		ntHere := hi - lo
		olo, ohi := maxI(lo, -16), minI(hi, 48)
		if ohi > olo {
			ntHere -= ohi - olo
		}
		nt += ntHere
		r.Note("int32_range_enumerated", fmt.Sprintf("[%d,%d)", lo, hi))
		r.LabelN("int32-exhaustive", hi-lo)
	} else {
		// ---- quick: dense window around every form boundary + uniform sample
		for _, c := range []int64{-16, 47, -2048, 2047, -262144, 262143, math.MinInt32 + 5000, math.MaxInt32 - 5000, 0} {
			for v := c - 5000; v <= c+5000; v++ {
				if msg := checkInt32(rig, int32(v)); msg != "" {
					fail32(int32(v), msg)
				}
				r.Eval()
				if v < -16 || v > 47 {
					r.NonTrivial(av.Hash("i" + strconv.FormatInt(v, 10)))
				}
			}
		}
		for i := 0; i < 100000; i++ {
			v := int32(rng.next())
			if msg := checkInt32(rig, v); msg != "" {
				fail32(v, msg)
			}
			r.Eval()
			r.NonTrivial(av.Hash("i" + strconv.FormatInt(int64(v), 10)))
		}
		r.Label("int32-windows+uniform")
	}
	// ---- int64: uniform and log-uniform samples
	n64 := 100000
	if rec.Thorough() {
		n64 = 1200000
	}
	for i := 0; i < n64; i++ {
		x := rng.next()
		var v int64
		if i%2 == 0 {
			v = int64(x)
		} else {
			v = int64(x) >> (rng.next() % 64) // log-uniform magnitude, both signs
		}
		if msg := checkInt64(rig, v); msg != "" {
			fail64(v, msg)
		}
		r.Eval()
		if v < -8 || v > 15 {
			if i%2 == 0 {
				nt++ // uniform stream: splitmix64 outputs are pairwise distinct by construction
			} else if i%8 == 1 {
				r.NonTrivial(av.Hash("l" + strconv.FormatInt(v, 10)))
			}
		}
		if i%4096 == 0 {
			sample(v, rig.buf.Bytes())
		}
		// every kind and position for a thinner sample
		if i%16 == 0 {
			n, msg := checkKinds(v, 0, false)
			r.EvalN(int64(n))
			if msg != "" {
				fail64(v, msg)
			}
			if i%32 == 0 {
				u := rng.next()
				n, msg = checkKinds(0, u|1<<63, true)
				r.EvalN(int64(n))
				if msg != "" {
					directFail(t, "C07", map[string]interface{}{"uvalue": strconv.FormatUint(u|1<<63, 10)}, "C07 uint64 %d: %s", u|1<<63, msg)
				}
			}
		}
	}
	r.Label("int64-uniform+loguniform")
	r.NonTrivialExact(nt)
}

func maxI(a, b int64) int64 {
	if a > b {
		return a
	}
	return b
}
func minI(a, b int64) int64 {
	if a < b {
		return a
	}
	return b
}
