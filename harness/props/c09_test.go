package props

import (
	"bytes"
	"fmt"
	"strings"
	"testing"
	"unicode/utf8"

	hessian "github.com/vogo/gohessian"

	"verif/harness/av"
	"verif/harness/rec"
	"verif/harness/refcodec"
	"verif/harness/zoo"
)

const (
	strChunk = 2048 // characters per string chunk used by the encoder under test
	binChunk = 4096
)

// mkString builds the content of class c and length n (in characters):
// 0 ASCII, 1 all 2-byte, 2 all 3-byte, 3 all 4-byte, 4 cycling mix,
// 5 ASCII with one wide code point (width wk) at offset off.
func mkString(c, n, off, wk int, salt uint64) string {
	var sb strings.Builder
	for i := 0; i < n; i++ {
		cls := c
		switch c {
		case 4:
			cls = int((uint64(i)*2654435761 + salt) >> 7 % 4)
		case 5:
			cls = 0
			if i == off {
				cls = wk - 1
			}
		}
		switch cls {
		case 0:
			sb.WriteByte(byte('a' + (uint64(i)+salt)%26))
		case 1:
			sb.WriteRune(rune(0xa1 + (uint64(i)*7+salt)%0x700))
		case 2:
			sb.WriteRune(rune(0x4e00 + (uint64(i)*13+salt)%0x5000))
		default:
			sb.WriteRune(rune(0x1f300 + (uint64(i)*5+salt)%0x300))
		}
	}
	return sb.String()
}

// c09Special: code points at the edges of the UTF-8 width classes and of the surrogate gap, and the ones text
// handling code tends to single out (NUL, BOM, the replacement character, non-characters, line separators).
var c09Special = []rune{0x00, 0x01, 0x09, 0x0a, 0x0d, 0x7f, 0x80, 0x85, 0xa0, 0x7ff, 0x800, 0x2028, 0x2029, 0xd7ff, 0xe000, 0xfdd0, 0xfeff, 0xfffc, 0xfffd, 0xfffe, 0xffff,
	0x10000, 0x1fffe, 0x1ffff, 0xe0001, 0x10fffd, 0x10fffe, 0x10ffff}

// mkSpecial: n characters, ASCII except for r at position pos.
func mkSpecial(r rune, n, pos int) string {
	var sb strings.Builder
	for i := 0; i < n; i++ {
		if i == pos {
			sb.WriteRune(r)
		} else {
			sb.WriteByte(byte('a' + i%26))
		}
	}
	return sb.String()
}

// mkScalars: n code points drawn over the whole range of Unicode scalar values (every eighth a special one).
func mkScalars(n int, salt uint64) string {
	var sb strings.Builder
	x := &splitmix{s: salt*0x9e3779b97f4a7c15 + 11}
	for i := 0; i < n; i++ {
		v := x.next()
		if v%8 == 0 {
			sb.WriteRune(c09Special[(v>>8)%uint64(len(c09Special))])
			continue
		}
		r := rune((v >> 8) % 0x10f800) // scalar values: skip the surrogate gap
		if r >= 0xd800 {
			r += 0x800
		}
		sb.WriteRune(r)
	}
	return sb.String()
}

// chunkString renders s as non-final 'R' chunks of c characters and a final 'S' chunk.
func chunkString(s string, c int) []byte {
	rs := []rune(s)
	var out []byte
	for len(rs) > c {
		out = append(out, 'R', byte(c>>8), byte(c))
		out = append(out, string(rs[:c])...)
		rs = rs[c:]
	}
	out = append(out, 'S', byte(len(rs)>>8), byte(len(rs)))
	return append(out, string(rs)...)
}

func mkBytes(n int, salt uint64) []byte {
	b := make([]byte, n)
	x := salt*0x9e3779b97f4a7c15 + 1
	for i := range b {
		x ^= x << 13
		x ^= x >> 7
		x ^= x << 17
		b[i] = byte(x)
	}
	return b
}

// wireStringOK: reference decoding of b must succeed; every string chunk must
// declare exactly its number of characters and hold whole UTF-8 sequences (the
// reference decoder reads a chunk as n whole code points and rejects anything
// else), every binary chunk exactly its octets.
func wireOK(b []byte) (*av.V, string) {
	a, _, err := refcodec.Decode(b)
	if err != nil {
		return nil, "emitted bytes not well-formed: " + err.Error()
	}
	msg := ""
	av.Walk(a, func(x *av.V) {
		if msg != "" || x.W == nil {
			return
		}
		for _, ch := range x.W.Chunks {
			data := b[ch.Start:ch.End]
			switch x.K {
			case av.String:
				// strip tag+length octets: count characters of the remainder
				hdr := 1
				if ch.Tag == 'S' || ch.Tag == 'R' {
					hdr = 3
				} else if ch.Tag >= 0x30 && ch.Tag <= 0x33 {
					hdr = 2
				}
				body := data[hdr:]
				if !utf8.Valid(body) {
					msg = fmt.Sprintf("string chunk at %d does not hold whole UTF-8 sequences", ch.Start)
				} else if utf8.RuneCount(body) != ch.Len {
					msg = fmt.Sprintf("string chunk at %d declares %d characters, holds %d", ch.Start, ch.Len, utf8.RuneCount(body))
				}
			case av.Binary:
				hdr := 1
				if ch.Tag == 'B' || ch.Tag == 'b' || ch.Tag == 'A' {
					hdr = 3
				} else if ch.Tag >= 0x34 && ch.Tag <= 0x37 {
					hdr = 2
				}
				if len(data)-hdr != ch.Len {
					msg = fmt.Sprintf("binary chunk at %d declares %d octets, holds %d", ch.Start, ch.Len, len(data)-hdr)
				}
			}
		}
	})
	return a, msg
}

func checkString(s string, s2 string) string {
	// ---- top level
	var b []byte
	var err error
	var out interface{}
	if pv, st := guard(func() { b, err = hessian.ToBytes(s, nil) }); pv != nil || err != nil {
		return fmt.Sprintf("top-level encode: %v %v [%s]", err, pv, st)
	}
	if _, msg := wireOK(b); msg != "" {
		return "top level: " + msg
	}
	if pv, st := guard(func() { out, err = hessian.ToObject(b, nil) }); pv != nil || err != nil {
		return fmt.Sprintf("top-level decode: %v %v [%s]", err, pv, st)
	}
	if o, ok := out.(string); !(ok && o == s) && !(s == "" && out == nil) {
		return fmt.Sprintf("top level: %d characters in, got %T of %d octets (first difference at octet %d)", utf8.RuneCountInString(s), out, len(fmt.Sprint(out)), firstDiff(s, fmt.Sprint(out)))
	}
	// the same through a Decoder that was declared, not constructed (var d Decoder; d.Decode / d.ReadFrom)
	for via := 0; via < 2; via++ {
		var zd hessian.Decoder
		var zo interface{}
		if pv, st := guard(func() {
			if via == 0 {
				zo, err = zd.Decode(b)
			} else {
				zo, err = zd.ReadFrom(bytes.NewReader(b))
			}
		}); pv != nil || err != nil {
			return fmt.Sprintf("top-level decode through a zero-value Decoder (entry %d): %v %v [%s]", via, err, pv, st)
		}
		if o, ok := zo.(string); !(ok && o == s) && !(s == "" && zo == nil) {
			return fmt.Sprintf("top level through a zero-value Decoder: %d characters in, got %T of %d octets", utf8.RuneCountInString(s), zo, len(fmt.Sprint(zo)))
		}
	}
	// ---- struct field, list element (with "" between neighbours), map key, map value, untyped list element
	c := &zoo.StrCarrier{S: s, L: []string{"a", s, "", s2, s}, MK: map[string]int32{s: 1, s2 + "x": 2}, MV: map[string]string{"k": s, "": s2, "e": ""}, A: []interface{}{s, "", int32(1), s2}}
	stage, rerr, cb := roundTrip(c)
	if rerr != nil {
		return fmt.Sprintf("in containers: %s: %v", stage, rerr)
	}
	if _, msg := wireOK(cb); msg != "" {
		return "in containers: " + msg
	}
	// ---- key of a map whose key type is a named string type; a map of a named map type, then two lists of strings
	mix := &zoo.StrMix{Tags: map[zoo.Label]string{zoo.Label(s): s2, "k": s}, Attrs: zoo.Dict{s: s2, "k": s}, Names: []string{s}, Alias: []string{s2, s},
		Blobs: [][]byte{[]byte(s2)}, More: [][]byte{[]byte(s), {}}}
	if stage, rerr, _ := roundTrip(mix); rerr != nil {
		return fmt.Sprintf("named key type, named map type in front of two lists of strings: %s: %v", stage, rerr)
	}
	return ""
}

func firstDiff(a, b string) int {
	i := 0
	for i < len(a) && i < len(b) && a[i] == b[i] {
		i++
	}
	return i
}

func checkBinary(p []byte, p2 []byte) string {
	var b []byte
	var err error
	var out interface{}
	if pv, st := guard(func() { b, err = hessian.ToBytes(p, nil) }); pv != nil || err != nil {
		return fmt.Sprintf("top-level encode: %v %v [%s]", err, pv, st)
	}
	if _, msg := wireOK(b); msg != "" {
		return "top level: " + msg
	}
	if pv, st := guard(func() { out, err = hessian.ToObject(b, nil) }); pv != nil || err != nil {
		return fmt.Sprintf("top-level decode: %v %v [%s]", err, pv, st)
	}
	if o, ok := out.([]byte); !(ok && bytes.Equal(o, p)) && !(len(p) == 0 && out == nil) {
		return fmt.Sprintf("top level: %d octets in, got %T (%d)", len(p), out, len(fmt.Sprint(out)))
	}
	c := &zoo.BinCarrier{B: p, L: [][]byte{{1}, p, {}, p2, p}, MV: map[string][]byte{"k": p, "": p2}, A: []interface{}{p, []byte{}, p2, &zoo.K00{A: 1}, &zoo.K01{A: "x"}, &zoo.K02{A: 2}, p, p2}}
	stage, rerr, cb := roundTrip(c)
	if rerr != nil {
		return fmt.Sprintf("in containers: %s: %v", stage, rerr)
	}
	if _, msg := wireOK(cb); msg != "" {
		return "in containers: " + msg
	}
	return ""
}

// c09Second: the second binary of a message; for multi-chunk cases a different
// multi-chunk binary, so that two large values are alive at once.
func c09Second(n int) []byte {
	if n > binChunk {
		return mkBytes(n-7, uint64(n)+99)
	}
	return mkBytes(n%7, 3)
}

func c09Lengths(chunk int, thorough bool) []int {
	max := 3*chunk + 40
	if thorough {
		out := make([]int, 0, max+1)
		for i := 0; i <= max; i++ {
			out = append(out, i)
		}
		return out
	}
	seen := map[int]bool{}
	var out []int
	add := func(lo, hi int) {
		for i := lo; i <= hi; i++ {
			if i >= 0 && i <= max && !seen[i] {
				seen[i] = true
				out = append(out, i)
			}
		}
	}
	add(0, 64)
	for _, c := range []int{1023, 1024, 255, 256, 65535} {
		add(c-8, c+8)
	}
	for m := chunk / 2; m <= max; m += chunk / 2 {
		add(m-40, m+40)
	}
	add(max-5, max)
	return out
}

func TestC09(t *testing.T) {
	r := rec.For("C09")
	shard, nshards := shardInfo()
	thorough := rec.Thorough()
	if rc := replayCase(); rc != nil && !strings.Contains(fmt.Sprint(rc["kind"]), "-") {
		// (the decode-only and long-list phases are cheap and deterministic: their replay is the whole run)
		kind, _ := rc["kind"].(string)
		n, _ := caseInt(rc, "length")
		cls, _ := caseInt(rc, "class")
		off, _ := caseInt(rc, "offset")
		wk, _ := caseInt(rc, "width")
		var msg string
		if kind == "binary" {
			msg = checkBinary(mkBytes(int(n), uint64(n)), c09Second(int(n)))
		} else if kind == "special" {
			rn, _ := caseInt(rc, "rune")
			msg = checkString(mkSpecial(rune(rn), int(n), int(off)), string(rune(rn)))
		} else if kind == "scalars" {
			msg = checkString(mkScalars(int(n), uint64(n)), mkScalars(3, uint64(n)+1))
		} else {
			msg = checkString(mkString(int(cls), int(n), int(off), int(wk), uint64(n)), mkString(1, int(n)%5, 0, 0, 1))
		}
		if msg != "" {
			t.Fatalf("replay: %s", msg)
		}
		return
	}
	var nt int64
	idx := 0
	mine := func() bool { idx++; return idx%nshards == shard }
	failS := func(cls, n, off, wk int, msg string) {
		directFail(t, "C09", map[string]interface{}{"kind": "string", "class": fmt.Sprint(cls), "length": fmt.Sprint(n), "offset": fmt.Sprint(off), "width": fmt.Sprint(wk)},
			"C09 string class=%d length=%d wide-offset=%d width=%d: %s", cls, n, off, wk, msg)
	}
	// ---- strings: every length x content class
	for _, n := range c09Lengths(strChunk, thorough) {
		for cls := 0; cls <= 4; cls++ {
			if !mine() {
				continue
			}
			s := mkString(cls, n, 0, 0, uint64(n))
			s2 := mkString(1, n%5, 0, 0, 1)
			if n > strChunk {
				s2 = mkString((cls+1)%5, n-3, 0, 0, uint64(n)+7) // a second multi-chunk string alive in the same message
			}
			if msg := checkString(s, s2); msg != "" {
				failS(cls, n, 0, 0, msg)
			}
			r.EvalN(2)
			nt++ // carrier positions are always non-top
			if n <= 40 || n%512 == 0 {
				r.Sample(func() interface{} {
					return map[string]interface{}{"kind": "string", "class": cls, "characters": n, "octets": len(s), "head": clipStr(s, 24)}
				})
			}
		}
	}
	r.Label("string:length-x-class")
	// ---- one wide code point at every offset around every chunk boundary
	for bnd := strChunk; bnd <= 3*strChunk; bnd += strChunk {
		for off := bnd - 3; off <= bnd+3; off++ {
			for wk := 2; wk <= 4; wk++ {
				for _, n := range []int{off + 1, bnd + 10, 3*strChunk + 40} {
					if n <= off || !mine() {
						continue
					}
					s := mkString(5, n, off, wk, uint64(n))
					if msg := checkString(s, ""); msg != "" {
						failS(5, n, off, wk, msg)
					}
					r.EvalN(2)
					nt++
				}
			}
		}
	}
	r.Label("string:wide-at-boundary")
	// ---- special code points: alone, at either end and in the middle of short strings, and on either side of the
	// first chunk boundary
	for _, sp := range c09Special {
		for _, np := range [][2]int{{1, 0}, {2, 0}, {2, 1}, {9, 4}, {33, 32}, {1025, 1023}, {strChunk, strChunk - 1}, {strChunk + 1, strChunk}, {strChunk + 2, strChunk - 1}, {strChunk + 5, 0}} {
			if !mine() {
				continue
			}
			if msg := checkString(mkSpecial(sp, np[0], np[1]), string(sp)); msg != "" {
				directFail(t, "C09", map[string]interface{}{"kind": "special", "rune": fmt.Sprint(int(sp)), "length": fmt.Sprint(np[0]), "offset": fmt.Sprint(np[1])},
					"C09 string of %d characters with U+%04X at position %d: %s", np[0], sp, np[1], msg)
			}
			r.EvalN(2)
			nt++
		}
	}
	r.Label("string:special-code-points")
	// ---- code points drawn over the whole range of scalar values
	for _, n := range []int{1, 2, 3, 7, 31, 32, 33, 255, 256, 1023, 1024, 1025, 4000, strChunk - 1, strChunk, strChunk + 1, 2*strChunk + 3} {
		for rep := 0; rep < 3; rep++ {
			if !mine() {
				continue
			}
			if msg := checkString(mkScalars(n+rep*0, uint64(n)+uint64(rep)*1000003), mkScalars(3, uint64(n)+1)); msg != "" && rep == 0 {
				directFail(t, "C09", map[string]interface{}{"kind": "scalars", "length": fmt.Sprint(n)}, "C09 string of %d code points drawn over all scalar values: %s", n, msg)
			} else if msg != "" {
				directFail(t, "C09", map[string]interface{}{"kind": "scalars", "length": fmt.Sprint(n), "note": "salt differs on replay"}, "C09 string of %d code points drawn over all scalar values (rep %d): %s", n, rep, msg)
			}
			r.EvalN(2)
			nt++
		}
	}
	r.Label("string:all-scalar-values")
	// ---- chunkings the Go encoder never produces but the grammar allows (a Java peer writes non-final chunks
	// of 32768 characters): decode only, the string followed by another value inside a list
	for _, cc := range [][2]int{{70000, 32768}, {70000, 32767}, {70000, 65535}, {140000, 65535}, {33000, 32999}, {5000, 1}, {40, 7}} {
		for cls := 0; cls <= 4; cls += 2 {
			if !mine() {
				continue
			}
			s := mkString(cls, cc[0], 0, 0, uint64(cc[0]+cc[1]))
			in := []byte{0x58, 0x92}
			in = append(in, chunkString(s, cc[1])...)
			in = append(in, 0x04, 't', 'a', 'i', 'l')
			var out interface{}
			var err error
			pv, st := guard(func() { out, err = hessian.ToObject(in, nil) })
			l, _ := out.([]interface{})
			if pv != nil || err != nil || len(l) != 2 || l[0] != interface{}(s) || l[1] != interface{}("tail") {
				got := ""
				if len(l) > 0 {
					got, _ = l[0].(string)
				}
				directFail(t, "C09", map[string]interface{}{"kind": "foreign-chunks", "class": fmt.Sprint(cls), "length": fmt.Sprint(cc[0]), "chunk": fmt.Sprint(cc[1])},
					"C09 string of %d characters (class %d) sent in chunks of %d characters: err=%v panic=%v [%s], %d elements, first difference at octet %d", cc[0], cls, cc[1], err, pv, st, len(l), firstDiff(s, got))
			}
			r.EvalN(1)
			nt++
		}
	}
	for _, cc := range [][2]int{{70000, 32768}, {70000, 65535}, {40000, 39999}, {5000, 1}} {
		if !mine() {
			continue
		}
		for _, tag := range []byte{'A', 'b'} {
			p := mkBytes(cc[0], uint64(cc[1]))
			in := []byte{0x58, 0x92}
			for off := 0; ; {
				n := len(p) - off
				if n > cc[1] {
					in = append(in, tag, byte(cc[1]>>8), byte(cc[1]))
					in = append(in, p[off:off+cc[1]]...)
					off += cc[1]
					continue
				}
				in = append(in, 'B', byte(n>>8), byte(n))
				in = append(in, p[off:]...)
				break
			}
			in = append(in, 0x91)
			var out interface{}
			var err error
			pv, st := guard(func() { out, err = hessian.ToObject(in, nil) })
			l, _ := out.([]interface{})
			var got []byte
			if len(l) > 0 {
				got, _ = l[0].([]byte)
			}
			if pv != nil || err != nil || len(l) != 2 || !bytes.Equal(got, p) || l[1] != interface{}(int32(1)) {
				directFail(t, "C09", map[string]interface{}{"kind": "foreign-binary-chunks", "length": fmt.Sprint(cc[0]), "chunk": fmt.Sprint(cc[1]), "tag": string(tag)},
					"C09 binary of %d octets sent in '%c' chunks of %d octets: err=%v panic=%v [%s], %d elements, %d octets back", cc[0], tag, cc[1], err, pv, st, len(l), len(got))
			}
			r.EvalN(1)
			nt++
		}
	}
	// a binary of several chunks, in either chunk tag, as the []byte field of an object that follows 0..4 other classes
	// (x62 is the draft's chunk tag and the short instance tag of class #2)
	for k := 0; k <= 4; k++ {
		for _, tag := range []byte{'A', 'b'} {
			if !mine() {
				continue
			}
			p := mkBytes(700, uint64(k)+uint64(tag))
			in := []byte{0x57}
			for i := 0; i < k; i++ {
				in = append(in, 'C', 0x03, 'K', '0', byte('0'+i), 0x91, 0x01, 'a', byte(0x60+i))
				switch i {
				case 0:
					in = append(in, 0x95) // K00.A int32
				case 2:
					in = append(in, 0xe5) // K02.A int64
				case 1:
					in = append(in, 0x01, 'x') // K01.A string
				case 3:
					in = append(in, 'T') // K03.A bool
				}
			}
			in = append(in, 'C', 0x03, 'K', '0', '6', 0x91, 0x01, 'a', byte(0x60+k))
			in = append(in, tag, 0x01, 0x00)
			in = append(in, p[:256]...)
			in = append(in, tag, 0x01, 0x00)
			in = append(in, p[256:512]...)
			in = append(in, 'B', 0x00, byte(len(p)-512))
			in = append(in, p[512:]...)
			in = append(in, 0x03, 'e', 'n', 'd', 'Z')
			var out interface{}
			var err error
			pv, st := guard(func() { out, err = hessian.ToObject(in, c05TM) })
			l, _ := out.([]interface{})
			var got []byte
			if len(l) == k+2 {
				if o, ok := l[k].(*zoo.K06); ok {
					got = o.A
				}
			}
			if pv != nil || err != nil || len(l) != k+2 || !bytes.Equal(got, p) || l[k+1] != interface{}("end") {
				directFail(t, "C09", map[string]interface{}{"kind": "chunked-binary-field-after-classes", "classes_before": fmt.Sprint(k), "tag": string(tag)},
					"C09 binary of 700 octets in three '%c' chunks as the []byte field of an object that follows %d other classes: err=%v panic=%v [%s], %d elements, %d octets back", tag, k, err, pv, st, len(l), len(got))
			}
			r.EvalN(1)
			nt++
		}
	}
	r.Label("foreign chunk sizes up to 65535")
	// ---- typed lists longer than the decoder's pre-allocation bound with empty strings in between
	for _, ln := range []int{64, 65, 66, 100, 300, 1025} {
		if !mine() {
			continue
		}
		l := make([]string, ln)
		for j := range l {
			switch j % 4 {
			case 0:
				l[j] = mkString(j%5, 1+j%9, 0, 0, uint64(j))
			case 2:
				l[j] = "x"
			}
		}
		l[ln-1] = ""
		for _, v := range []interface{}{l, &zoo.StrCarrier{S: "s", L: l}} {
			if stage, rerr, _ := roundTrip(v); rerr != nil {
				directFail(t, "C09", map[string]interface{}{"kind": "long-list-with-empty-strings", "length": fmt.Sprint(ln)}, "C09 []string of %d elements, every second one empty: %s: %v", ln, stage, rerr)
			}
			r.EvalN(int64(ln))
			nt++
		}
	}
	r.Label("typed string lists to 1025 elements with empty strings")
	// ---- binaries: every length
	for _, n := range c09Lengths(binChunk, thorough) {
		if !mine() {
			continue
		}
		p := mkBytes(n, uint64(n))
		if msg := checkBinary(p, c09Second(n)); msg != "" {
			directFail(t, "C09", map[string]interface{}{"kind": "binary", "length": fmt.Sprint(n)}, "C09 binary length=%d: %s", n, msg)
		}
		r.EvalN(2)
		nt++
		if n <= 20 || n%1024 == 0 {
			r.Sample(func() interface{} { return map[string]interface{}{"kind": "binary", "octets": n} })
		}
	}
	r.Label("binary:every-length")
	// ---- large random contents
	nbig := 6
	if thorough {
		nbig = 600
	}
	rng := seedFor("C09")
	for i := 0; i < nbig; i++ {
		limit := uint64(1) << (10 + rng.next()%11) // up to 1 MiB
		n := int(rng.next() % limit)
		cls := int(rng.next() % 5)
		if cls >= 1 && cls <= 3 {
			n /= cls + 1
		}
		s := mkString(cls, n, 0, 0, rng.next())
		if msg := checkString(s, "z"); msg != "" {
			directFail(t, "C09", map[string]interface{}{"kind": "string", "class": fmt.Sprint(cls), "length": fmt.Sprint(n), "offset": "0", "width": "0", "note": "large random; salt differs on replay"}, "C09 large string class=%d length=%d: %s", cls, n, msg)
		}
		p := mkBytes(int(rng.next()%limit), rng.next())
		if msg := checkBinary(p, nil); msg != "" {
			directFail(t, "C09", map[string]interface{}{"kind": "binary", "length": fmt.Sprint(len(p))}, "C09 large binary length=%d: %s", len(p), msg)
		}
		r.EvalN(4)
		nt += 2
	}
	r.Label("large-random")
	r.NonTrivialExact(nt)
}

func clipStr(s string, n int) string {
	rs := []rune(s)
	if len(rs) > n {
		return string(rs[:n]) + "..."
	}
	return s
}
