package props

import (
	"bytes"
	"encoding/base64"
	"encoding/binary"
	"encoding/hex"
	"fmt"
	"os"
	"reflect"
	"strconv"
	"strings"
	"testing"
	"time"

	hessian "github.com/vogo/gohessian"
	"pgregory.net/rapid"

	"verif/harness/av"
	"verif/harness/rec"
	"verif/harness/refcodec"
	"verif/harness/zoo"
)

const (
	c14AllocBase    = 8 << 20 // a 64 Ki-character chunk buffer is the largest legitimate constant
	c14AllocPerByte = 4 << 10
	c14SlowNanos    = uint64(5 * time.Second)
)

// hostile integer constants, to be written over counts, lengths and indices
var hostileInts = []int32{0, -1, 1, 2, 15, 16, 17, 255, 256, 65535, 65536, 1 << 20, 1 << 24, 1 << 28, 1 << 29, 1 << 30, 1<<31 - 1, -(1 << 31), -2, 1000000}

func encInt(v int32) []byte {
	switch {
	case v >= -16 && v <= 47:
		return []byte{byte(0x90 + v)}
	case v >= -2048 && v <= 2047:
		return []byte{byte(0xc8 + (v >> 8)), byte(v)}
	case v >= -262144 && v <= 262143:
		return []byte{byte(0xd4 + (v >> 16)), byte(v >> 8), byte(v)}
	}
	return []byte{'I', byte(v >> 24), byte(v >> 16), byte(v >> 8), byte(v)}
}

var interestingTags = []byte{'N', 'T', 'F', 'I', 'L', 'D', 'S', 'R', 'B', 'b', 'A', 'C', 'O', 'H', 'M', 'V', 'Z', 'Q', 0x51, 0x55, 0x57, 0x58, 0x59, 0x4a, 0x4b,
	0x5b, 0x5c, 0x5d, 0x5e, 0x5f, 0x60, 0x61, 0x62, 0x6f, 0x70, 0x77, 0x78, 0x7f, 0x00, 0x1f, 0x20, 0x2f, 0x30, 0x33, 0x34, 0x38, 0x3f, 0x80, 0xbf, 0xc0, 0xcf, 0xd0, 0xd7, 0xd8, 0xef, 0xf0, 0xff, 0x90, 0x91}

// the byte strings of the repository's tests that came from a Java peer, and the
// examples quoted in the source headers
// c14Small: the fixed inputs of at most 256 octets (cheap enough to be thrown into histories and plans).
func c14Small() [][]byte {
	var out [][]byte
	for _, b := range c14Fixed() {
		if len(b) <= 256 {
			out = append(out, b)
		}
	}
	return out
}

// c14Deep: inputs whose nesting depth is their length. A megabyte of one container-opening tag (and of mixtures):
// the readers call one another once per level, so the depth of the recursion, and the stack it needs, are set by
// the input alone (§5 #42: 'fatal error: stack overflow', which no recover catches); also 300 000 instances nested
// through a pointer field, an interface-list field and a list field of a registered class.
func c14Deep() [][]byte {
	var out [][]byte
	for _, unit := range []string{"\x57", "\x79", "\x58\x91", "\x56\x00\x91", "H\x01k", "\x57\x79H\x91", "M\x00\x90"} {
		out = append(out, bytes.Repeat([]byte(unit), (1<<20)/len(unit)))
	}
	for _, unit := range []string{"\x60", "\x60\x90", "\x60\x79"} {
		cls := map[string]string{"\x60": "C\x05ENode\x91\x04next", "\x60\x90": "C\x07AnyList\x92\x01n\x01l", "\x60\x79": "C\x05SlPtr\x91\x01l"}[unit]
		out = append(out, append([]byte(cls), bytes.Repeat([]byte(unit), 300000)...))
	}
	return out
}

func c14Fixed() [][]byte {
	var out [][]byte
	for _, s := range []string{
		"Qw9oZXNzaWFuLk1lc3NhZ2WSBXRpdGxlA21zZ2ACbTF6QxFoZXNzaWFuLlRyYWNlRGF0YZIDc2VxBGRhdGFh1eJAQw9oZXNzaWFuLlRyYWNlVm+SA2tleQV2YWx1ZWICazECdjFh1eJBYgJrMgJ2Mg==",
		"chFqYXZhLnV0aWwuSGFzaFNldAZjY2NkZGQGYWFhYmJi",
	} {
		b, _ := base64.StdEncoding.DecodeString(s)
		out = append(out, b)
	}
	for _, h := range []string{
		"579091" + "5a",                   // x57 x90 x91 Z
		"5200016153000568656c6c6f",        // R x00 x01 a S x00 x05 hello
		"56045b696e74929091",              // V [int 2 0 1
		"72045b696e749091" + "7390929394", // x72 [int 0 1 ; x73 type-ref#0 2 3 4
		"430b6578616d706c652e43617292" + "05636f6c6f72056d6f64656c" + "4f9003726564" + "08636f727665747465", // C example.Car 2 color model O x90 red corvette
		"48910366656561a0036669655a", // H 1 fee ... Z (truncated variant)
		"4d13636f6d2e63617563686f2e746573742e43617205636f6c6f720a617175616d6172696e655a",
		"584910000000", "584920000000", "584940000000", "56045b696e744940000000", "56055b6c6f6e674920000000", "5606" + "5b696e743634" + "4920000000", "56085b737472696e674908000000", // declared lengths whose product with an element size wraps 32 bits
		"4300905a", "4f90", "5190", "51ff", "60", "6f", "4fc8ff", "7fffffffff", "58497fffffff", "56004990", "5500", "4d00", "4d90", "4300" + "497fffffff",
		"71065b696e74333279" + "5191",                     // typed int list whose element is a list containing itself
		"71055b74726565795191",                            // "[tree" (type Tree []Tree) holding a list that contains itself
		"4d016a0161480173" + "51915a5a",                   // "j" (type JMap map[string]JMap) holding a map that contains itself
		"43046e6f64659201610173" + "60" + "90" + "5190",   // object whose string field is a ref to itself
		"4d05496e6e6572" + "48016151915a" + "91" + "5a",   // typed map registered as a struct whose KEY is a map that contains itself
		"4d05496e6e6572" + "795191" + "91" + "5a",         // ... whose key is a list that contains itself
		"4d05496e6e6572" + "0161" + "48016151915a" + "5a", // ... whose value for the field 'a' is a map that contains itself
		"7a7a5190", "5751905a", "4851905190" + "5a", "7851" + "90", "79795191", "48790151915a",
		"4a0000000000000000", "4bffffffff", "4400", "5f", "52ffff", "53ffff61", "42ffff", "62ffff00", "33ff", "2f",
	} {
		b, _ := hex.DecodeString(h)
		out = append(out, b)
	}
	// type names that are not registered but look derivable: '[' repeated k times in front of an element name
	for _, k := range []int{3, 50, 1000, 4000, 20000, 60000} {
		for _, elem := range []string{"int", "Inner", "string"} {
			name := strings.Repeat("[", k) + elem
			var b []byte
			b = append(b, 0x72) // typed list of two
			if len(name) < 32 {
				b = append(b, byte(len(name)))
			} else if len(name) < 1024 {
				b = append(b, 0x30+byte(len(name)>>8), byte(len(name)))
			} else {
				b = append(b, 'S', byte(len(name)>>8), byte(len(name)))
			}
			b = append(b, name...)
			b = append(b, 0x90, 0x91)
			out = append(out, b)
			if elem != "int" && k > 50 {
				break
			}
		}
	}
	// lists that share their sub-lists, k levels deep (2^k paths, k+1 lists), into recursive list types
	for _, typ := range []string{"\x05[tree", "\x06[ptree"} {
		for _, k := range []int{3, 12, 22, 40} {
			b := append([]byte{0x72}, typ...)
			for i := 1; i < k; i++ {
				b = append(b, 0x7a)
			}
			b = append(b, 0x78)
			for i := k - 1; i >= 0; i-- {
				b = append(b, 0x51)
				b = append(b, encInt(int32(i+1))...)
			}
			out = append(out, b)
		}
	}
	// every input of one octet (two-octet inputs: see the exhaustive phase of the test)
	for i := 0; i < 256; i++ {
		out = append(out, []byte{byte(i)})
	}
	// a container field of an object that refers back to the list (or map) the object sits in, which is still
	// being read and whose elements do not fit the field: whatever binds such references late must still turn a
	// mismatch into an error
	for _, cls := range []string{"\x05SlStr\x91\x01l", "\x05SlI32\x91\x01l", "\x05SlPtr\x91\x01l", "\x05SlF64\x91\x01l", "\x08MpStrI32\x91\x01m", "\x08MpStrStr\x91\x01m", "\x07AnyList\x92\x01n\x01l"} {
		def := append([]byte{'C'}, cls...)
		inst := []byte{0x60}
		if strings.HasPrefix(cls, "\x07AnyList") {
			inst = append(inst, 0x91)
		}
		for _, form := range []int{0, 1, 2, 3, 4, 5, 6, 7} {
			var b []byte
			switch form {
			case 0: // fixed untyped list of one
				b = append(append(append([]byte{0x79}, def...), inst...), 0x51, 0x90)
			case 1: // variable untyped list, a second element behind
				b = append(append(append(append([]byte{0x57}, def...), inst...), 0x51, 0x90), 0x91, 'Z')
			case 2: // typed fixed list
				b = append(append(append([]byte{0x72, 0x07, '[', 'o', 'b', 'j', 'e', 'c', 't'}, def...), inst...), 0x51, 0x90, 0x4e)
			case 3: // value of an untyped map
				b = append(append(append([]byte{'H', 0x01, 'k'}, def...), inst...), 0x51, 0x90, 'Z')
			case 4: // two levels up
				b = append(append(append([]byte{0x7a, 0x91, 0x79}, def...), inst...), 0x51, 0x90)
			case 5: // the definition hoisted in front of the list
				b = append(append(append(append([]byte{}, def...), 0x79), inst...), 0x51, 0x90)
			case 6: // ... and the list referred to again by the next value on the stream
				b = append(append(append(append([]byte{}, def...), 0x79), inst...), 0x51, 0x90, 0x51, 0x90)
			default:
				b = append(append(append([]byte{0x79}, def...), inst...), 0x51, 0x90, 0x51, 0x90, 0x51, 0x91)
			}
			out = append(out, b)
		}
	}
	// amplification patterns: cost must follow the input, not what it declares or re-uses
	{
		var b []byte
		for i := 0; i < 21845; i++ { // nested fixed lists, each declaring 1024 elements
			b = append(b, 0x58, 0xcc, 0x00)
		}
		out = append(out, b)
		b = append([]byte{}, 'V', 5, '[', '[', 'i', 'n', 't', 'I', 0, 0, 0x20, 0x01, 0x58, 'I', 0, 0, 0x40, 0)
		for i := 0; i < 16384; i++ {
			b = append(b, 0x90)
		}
		for i := 0; i < 8192; i++ { // 8192 references to one 16384-element list
			b = append(b, 0x51, 0x91)
		}
		out = append(out, b)
		b = append([]byte{}, 0x57, 0x58, 'I', 0, 0, 0x40, 0)
		for i := 0; i < 16384; i++ {
			b = append(b, 0x90)
		}
		for i := 0; i < 16000; i++ { // the same in an untyped list
			b = append(b, 0x51, 0x91)
		}
		out = append(out, append(b, 'Z'))
		// a map whose values all refer to one big map; class definition with a huge count
		b = append([]byte{}, 'H', 0x01, 'a', 'H')
		for i := 0; i < 4000; i++ {
			b = append(b, 0xd4, byte(i>>8), byte(i), 0x90)
		}
		b = append(b, 'Z')
		for i := 0; i < 8000; i++ {
			b = append(b, 0xd5, byte(i>>8), byte(i), 0x51, 0x91)
		}
		out = append(out, append(b, 'Z'))
		out = append(out, []byte{'C', 4, 'b', 'e', 'a', 'n', 'I', 0, 0x10, 0, 0})
		// a typed list of maps inside the map its elements refer to (the map is still being read when
		// the references arrive; found by the thorough tier)
		b = append([]byte{}, 0x7a, 'H')
		for i := 0; i < 3000; i++ {
			b = append(b, 3, byte('a'+i%26), byte('a'+i/26%26), byte('a'+i/676), 0xe0)
		}
		b = append(b, 3, 'l', 's', 't', 'V', 2, '[', 'm')
		b = append(b, encInt(9000)...)
		for i := 0; i < 9000; i++ {
			b = append(b, 0x51, 0x91)
		}
		out = append(out, append(b, 'Z', 0x90))
		// typed maps whose type name is registered as a struct, each with a field that refers to one big list
		n, m := 4000, 16000
		b = append([]byte{0x57, 0x58}, encInt(int32(m))...)
		for i := 0; i < m; i++ {
			b = append(b, 0x90)
		}
		for i := 0; i < n; i++ {
			b = append(b, 'M', 0x05, 'S', 'l', 'I', '3', '2', 0x01, 'l', 0x51, 0x91, 'Z')
		}
		out = append(out, append(b, 'Z'))
		// a class definition with thousands of wire fields and thousands of instances opened one inside the
		// other as the value of the first field, none of them completed
		w, d := 3000, 12000
		b = append([]byte{'C', 0x04, 'N', 'o', 'd', 'e'}, encInt(int32(w))...)
		b = append(b, 0x01, 'a')
		for i := 1; i < w; i++ {
			b = append(b, 0x03, 'u', byte('a'+i%26), byte('a'+i/26%26))
		}
		for i := 0; i < d; i++ {
			b = append(b, 0x60)
		}
		out = append(out, b)
	}
	// back-reference amplification (each found by a seeding sub-agent on the then-current tree):
	// n references to one list / map from typed fields, queued destinations, a list whose
	// elements refer to itself, a typed list of references to one map, a long unknown field
	// name repeated for every instance
	{
		n := 9000
		var b []byte
		b = append(b, 0x58)
		b = append(b, encInt(int32(n+1))...)
		b = append(b, 0x58)
		b = append(b, encInt(int32(n))...)
		for i := 0; i < n; i++ {
			b = append(b, 0x90)
		}
		b = append(b, "C\x05SlI32\x91\x01l"...)
		for i := 0; i < n; i++ {
			b = append(b, 0x60, 0x51, 0x91)
		}
		out = append(out, b)
		n = 2500
		b = append([]byte{0x58}, encInt(int32(n+1))...)
		b = append(b, 'H')
		for i := 0; i < n; i++ {
			b = append(b, 3, byte('a'+i%26), byte('a'+i/26%26), byte('a'+i/676), 0xe0)
		}
		b = append(b, 'Z')
		b = append(b, "C\x08MpStrI64\x91\x01m"...)
		for i := 0; i < n; i++ {
			b = append(b, 0x60, 0x51, 0x91)
		}
		out = append(out, b)
		n = 16000
		b = append([]byte{}, "C\x06AmpTop\x91\x01lC\x04AmpN\x91\x01r\x60\x58"...)
		b = append(b, encInt(int32(n))...)
		for i := 0; i < n; i++ {
			b = append(b, 0x61, 0x51, 0x91)
		}
		out = append(out, b)
		n = 30000
		b = append([]byte{}, "C\x08RecConts\x93\x01t\x01j\x01n\x60\x57"...)
		for i := 0; i < n; i++ {
			b = append(b, 0x51, 0x91)
		}
		out = append(out, append(b, 'Z', 'N', 0x90))
		b = append([]byte{0x57}, make([]byte, 0)...)
		for i := 0; i < n; i++ {
			b = append(b, 0x51, 0x90)
		}
		out = append(out, append(b, 'Z'))
		n = 3000
		b = append([]byte{0x7a, 'H'}, make([]byte, 0)...)
		for i := 0; i < n; i++ {
			b = append(b, 3, byte('a'+i%26), byte('a'+i/26%26), byte('a'+i/676), 0xe0)
		}
		b = append(b, 'Z', 'V', 2, '[', 'm')
		b = append(b, encInt(int32(n*3))...)
		for i := 0; i < n*3; i++ {
			b = append(b, 0x51, 0x91)
		}
		out = append(out, b)
		n = 20000
		b = append([]byte{}, "C\x09IntFields\x91S"...)
		b = append(b, byte(n>>8), byte(n))
		for i := 0; i < n; i++ {
			b = append(b, 'x')
		}
		b = append(b, 0x58)
		b = append(b, encInt(int32(n))...)
		for i := 0; i < n; i++ {
			b = append(b, 0x60, 'N')
		}
		out = append(out, b)
	}
	// "billion laughs": l1 = [l0, l0], l2 = [l1, l1], ... as lists and as maps, typed and untyped
	for _, depth := range []int{20, 24, 40} {
		for _, typed := range []bool{true, false} {
			var b []byte
			if typed {
				b = append(b, 0x71, 5, '[', 't', 'r', 'e', 'e')
			} else {
				b = append(b, 0x79)
			}
			for i := depth; i >= 1; i-- {
				b = append(b, 0x7a)
			}
			b = append(b, 0x78)
			for i := 1; i <= depth; i++ {
				b = append(b, 0x51)
				b = append(b, encInt(int32(depth+1-(i-1)))...)
			}
			out = append(out, b)
			var m []byte
			if typed {
				m = append(m, 'M', 1, 'j')
			} else {
				m = append(m, 'H')
			}
			for i := depth; i >= 1; i-- {
				m = append(m, 1, 'a', 'H')
			}
			m = append(m, 'Z')
			for i := 1; i <= depth; i++ {
				m = append(m, 1, 'b', 0x51)
				m = append(m, encInt(int32(depth-(i-1)))...)
				m = append(m, 'Z')
			}
			out = append(out, m)
		}
	}
	// a list and a map that contain themselves, then an instance of every zoo class whose fields
	// are all back-references to them: cyclic values arriving in typed fields of every kind
	for _, typ := range zoo.StructTypes {
		zero, perr := zoo.Project(reflect.New(typ).Interface(), nil)
		if perr != nil || zero.K != av.Object {
			continue
		}
		selfList := &av.V{K: av.List}
		selfList.Elems = []*av.V{selfList, av.IntV(1)}
		selfMap := &av.V{K: av.Map}
		selfMap.Elems = []*av.V{av.StringV("self"), selfMap}
		obj := &av.V{K: av.Object, Type: zero.Type, Fields: zero.Fields}
		for i := range zero.Fields {
			if i%2 == 0 {
				obj.Elems = append(obj.Elems, selfList)
			} else {
				obj.Elems = append(obj.Elems, selfMap)
			}
		}
		out = append(out, refcodec.Encode(&av.V{K: av.List, Elems: []*av.V{selfList, selfMap, obj}}, refcodec.Canonical{}, refcodec.EncOptions{}))
	}
	// nesting as deep as the input is long: cost must stay proportional to the input
	for _, tag := range []byte{0x57, 'H', 0x79, 0x55, 'M'} {
		b := make([]byte, 65536)
		for i := range b {
			b[i] = tag
		}
		out = append(out, b)
	}
	return out
}

type c14Gen struct {
	rng    *splitmix
	corpus [][]byte
	tokens [][]refcodec.Token
}

func (g *c14Gen) n(k int) int { return int(g.rng.next() % uint64(k)) }

func (g *c14Gen) pick() (int, []byte) {
	i := g.n(len(g.corpus))
	return i, g.corpus[i]
}

func (g *c14Gen) toks(i int) []refcodec.Token {
	if g.tokens[i] == nil {
		d := refcodec.NewDecoder(g.corpus[i])
		d.KeepTokens = true
		d.Value()
		g.tokens[i] = d.Tokens
		if g.tokens[i] == nil {
			g.tokens[i] = []refcodec.Token{}
		}
	}
	return g.tokens[i]
}

func splice(b []byte, s, e int, repl []byte) []byte {
	out := make([]byte, 0, len(b)-(e-s)+len(repl))
	out = append(out, b[:s]...)
	out = append(out, repl...)
	return append(out, b[e:]...)
}

// next produces one hostile input and names how it was made.
func (g *c14Gen) next() ([]byte, string) {
	switch k := g.n(20); {
	case k < 3: // (a) uniformly random octets, log-uniform length up to 64 KiB
		n := g.n(1 << uint(g.n(17)))
		b := make([]byte, n)
		for i := range b {
			b[i] = byte(g.rng.next())
		}
		return b, "random"
	case k < 5: // random over the interesting tags (gets past the first octet)
		n := g.n(1 << uint(g.n(12)))
		b := make([]byte, n)
		for i := range b {
			if g.n(4) == 0 {
				b[i] = byte(g.rng.next())
			} else {
				b[i] = interestingTags[g.n(len(interestingTags))]
			}
		}
		return b, "random-tags"
	case k < 8: // (b) prefix of a valid message
		_, m := g.pick()
		if len(m) == 0 {
			return m, "prefix"
		}
		return append([]byte{}, m[:g.n(len(m)+1)]...), "prefix"
	case k < 16: // (c) structure-aware: edit tokens of a valid message
		i, m := g.pick()
		toks := g.toks(i)
		if len(toks) == 0 {
			return append([]byte{}, m...), "valid"
		}
		b := append([]byte{}, m...)
		what := "struct"
		edits := 1 + g.n(3)
		for e := 0; e < edits; e++ {
			t := toks[g.n(len(toks))]
			if t.End > len(b) || t.Start >= t.End {
				continue
			}
			switch t.Kind {
			case "int", "count", "classidx", "typeref", "refidx":
				if t.Kind == "classidx" && t.End-t.Start == 1 && b[t.Start] >= 0x60 && b[t.Start] <= 0x6f {
					b[t.Start] = 0x60 + byte(g.n(16))
					what += ":classidx"
					break
				}
				b = splice(b, t.Start, t.End, encInt(hostileInts[g.n(len(hostileInts))]))
				what += ":" + t.Kind
				return b, what // offsets are stale after a length change
			case "strlen", "binlen":
				// rewrite the declared length in place
				switch t.End - t.Start {
				case 1:
					b[t.Start] = byte(g.rng.next())
				case 2:
					b[t.Start+1] = byte(g.rng.next())
				default:
					binary.BigEndian.PutUint16(b[t.Start+1:], uint16(g.rng.next()))
				}
				what += ":" + t.Kind
			case "typename", "classname", "fieldname":
				if t.End-t.Start > 1 {
					b[t.Start+1+g.n(t.End-t.Start-1)] ^= byte(1 << uint(g.n(8)))
				}
				what += ":" + t.Kind
			case "value", "tag":
				switch g.n(7) {
				case 0: // tag swap
					b[t.Start] = interestingTags[g.n(len(interestingTags))]
					what += ":tagswap"
				case 1: // delete the sub-tree
					return splice(b, t.Start, t.End, nil), what + ":delete"
				case 2: // duplicate the sub-tree
					return splice(b, t.End, t.End, b[t.Start:t.End]), what + ":dup"
				case 3: // replace by a sub-tree of another message
					j, m2 := g.pick()
					t2s := g.toks(j)
					if len(t2s) > 0 {
						t2 := t2s[g.n(len(t2s))]
						if t2.End <= len(m2) && t2.Start < t2.End {
							return splice(b, t.Start, t.End, m2[t2.Start:t2.End]), what + ":graft"
						}
					}
				case 4: // a back-reference to one of the first containers, bare or inside a fresh list (cycles)
					k := byte(0x90 + g.n(8))
					if g.n(2) == 0 {
						return splice(b, t.Start, t.End, []byte{0x51, k}), what + ":ref"
					}
					return splice(b, t.Start, t.End, []byte{0x79, 0x51, k}), what + ":self-ref-list"
				default: // replace by a ref / huge list header / unknown class
					repl := [][]byte{{0x51, 0xa0}, {0x58, 'I', 0x7f, 0xff, 0xff, 0xff}, {'O', 0xc8, 0xff}, {0x57}, {'H'}, {'V', 0x00, 'I', 0x7f, 0xff, 0xff, 0xf0}, {'C', 0x01, 'x', 'I', 0x7f, 0xff, 0xff, 0xff}, {0x55, 0x91}, {'M', 0x9f}}
					return splice(b, t.Start, t.End, repl[g.n(len(repl))]), what + ":hostile-subtree"
				}
			}
		}
		return b, what
	default: // (d) byte-level flips, inserts, deletes
		_, m := g.pick()
		b := append([]byte{}, m...)
		for e := 0; e < 1+g.n(4); e++ {
			if len(b) == 0 {
				b = append(b, byte(g.rng.next()))
				continue
			}
			p := g.n(len(b))
			switch g.n(4) {
			case 0:
				b[p] ^= byte(1 << uint(g.n(8)))
			case 1:
				b[p] = interestingTags[g.n(len(interestingTags))]
			case 2:
				b = splice(b, p, p, []byte{byte(g.rng.next())})
			default:
				b = splice(b, p, p+1, nil)
			}
		}
		return b, "bytes"
	}
}

// judge turns a verdict into a violation message ("" = fine).
// c14Scaled: families of messages whose size is proportional to a scale k and in which something small is
// re-used or declared k times. Decoding the message of scale 2k may cost about twice what scale k costs; a
// factor of four is the signature of cost that follows (re-uses x size), not the input.
var c14Scaled = []struct {
	name string
	gen  func(k int) []byte
}{
	{"k references to a 2k-element list inside a typed [[int list", func(k int) []byte {
		b := append([]byte{'V', 5, '[', '[', 'i', 'n', 't'}, encInt(int32(k+1))...)
		b = append(append(b, 0x58), encInt(int32(2*k))...)
		for i := 0; i < 2*k; i++ {
			b = append(b, 0x90)
		}
		for i := 0; i < k; i++ {
			b = append(b, 0x51, 0x91)
		}
		return b
	}},
	{"2k references to a 2k-element list inside an untyped list", func(k int) []byte {
		b := append([]byte{0x57, 0x58}, encInt(int32(2*k))...)
		for i := 0; i < 2*k; i++ {
			b = append(b, 0x90)
		}
		for i := 0; i < 2*k; i++ {
			b = append(b, 0x51, 0x91)
		}
		return append(b, 'Z')
	}},
	{"2k map values referring to one map of k entries", func(k int) []byte {
		b := []byte{'H', 0x01, 'a', 'H'}
		for i := 0; i < k; i++ {
			b = append(append(b, encInt(int32(i))...), 0x90)
		}
		b = append(b, 'Z')
		for i := 0; i < 2*k; i++ {
			b = append(append(b, encInt(int32(100000+i))...), 0x51, 0x91)
		}
		return append(b, 'Z')
	}},
	{"k objects whose []int32 field refers to one list of k elements", func(k int) []byte {
		b := append([]byte{0x58}, encInt(int32(k+1))...)
		b = append(append(b, 0x58), encInt(int32(k))...)
		for i := 0; i < k; i++ {
			b = append(b, 0x90)
		}
		b = append(b, "C\x05SlI32\x91\x01l"...)
		for i := 0; i < k; i++ {
			b = append(b, 0x60, 0x51, 0x91)
		}
		return b
	}},
	{"k/2 typed maps registered as a struct whose field refers to one list of 2k elements", func(k int) []byte {
		b := append([]byte{0x57, 0x58}, encInt(int32(2*k))...)
		for i := 0; i < 2*k; i++ {
			b = append(b, 0x90)
		}
		for i := 0; i < k/2; i++ {
			b = append(b, 'M', 0x05, 'S', 'l', 'I', '3', '2', 0x01, 'l', 0x51, 0x91, 'Z')
		}
		return append(b, 'Z')
	}},
	{"k references, in a typed list of maps, to the enclosing map of k/2 entries", func(k int) []byte {
		b := []byte{0x7a, 'H'}
		for i := 0; i < k/2; i++ {
			b = append(b, 3, byte('a'+i%26), byte('a'+i/26%26), byte('a'+i/676%26), 0xe0)
		}
		b = append(append(b, 3, 'l', 's', 't', 'V', 2, '[', 'm'), encInt(int32(k))...)
		for i := 0; i < k; i++ {
			b = append(b, 0x51, 0x91)
		}
		return append(b, 'Z', 0x90)
	}},
	{"k references, in a typed list of maps of a named untyped-map type, to the enclosing map of k/2 entries", func(k int) []byte {
		b := []byte{0x7a, 'H'}
		for i := 0; i < k/2; i++ {
			b = append(b, 3, byte('a'+i%26), byte('a'+i/26%26), byte('a'+i/676%26), 0xe0)
		}
		b = append(append(b, 3, 'l', 's', 't', 'V', 6, '[', 'p', 'r', 'o', 'p', 's'), encInt(int32(k))...)
		for i := 0; i < k; i++ {
			b = append(b, 0x51, 0x91)
		}
		return append(b, 'Z', 0x90)
	}},
	{"k references, as values of a typed map of a named untyped-map type, to the enclosing map of k/2 entries", func(k int) []byte {
		b := []byte{0x7a, 'H'}
		for i := 0; i < k/2; i++ {
			b = append(b, 3, byte('a'+i%26), byte('a'+i/26%26), byte('a'+i/676%26), 0xe0)
		}
		b = append(b, 3, 'l', 's', 't', 'M', 5, 'p', 'r', 'o', 'p', 's')
		for i := 0; i < k; i++ {
			b = append(append(b, encInt(int32(i))...), 0x51, 0x91)
		}
		return append(b, 'Z', 'Z', 0x90)
	}},
	{"a class definition of k/4 wire fields and k instances opened inside one another", func(k int) []byte {
		b := append([]byte{'C', 0x04, 'N', 'o', 'd', 'e'}, encInt(int32(k/4))...)
		b = append(b, 0x01, 'a')
		for i := 1; i < k/4; i++ {
			b = append(b, 0x03, 'u', byte('a'+i%26), byte('a'+i/26%26))
		}
		for i := 0; i < k; i++ {
			b = append(b, 0x60)
		}
		return b
	}},
	{"a map of k entries followed by k empty maps", func(k int) []byte {
		b := []byte{0x57, 'H'}
		for i := 0; i < k; i++ {
			b = append(append(b, encInt(int32(i))...), 0x90)
		}
		b = append(b, 'Z')
		for i := 0; i < k; i++ {
			b = append(b, 'H', 'Z')
		}
		return append(b, 'Z')
	}},
	{"a map of k entries followed by k/2 maps of one entry as values of unknown fields", func(k int) []byte {
		b := []byte{0x57, 'H'}
		for i := 0; i < k; i++ {
			b = append(append(b, encInt(int32(i))...), 0x90)
		}
		b = append(b, 'Z')
		b = append(b, "C\x05Inner\x91\x03zzz"...)
		for i := 0; i < k/2; i++ {
			b = append(b, 0x60, 'H', 0x90, 0x90, 'Z')
		}
		return append(b, 'Z')
	}},
	{"a class definition of 8k one-letter field names and one instance of nulls", func(k int) []byte {
		b := append([]byte{'C', 0x04, 'N', 'o', 'd', 'e'}, encInt(int32(8*k))...)
		for i := 0; i < 8*k; i++ {
			b = append(b, 0x01, byte('a'+i%26))
		}
		b = append(b, 0x60)
		for i := 0; i < 8*k; i++ {
			b = append(b, 'N')
		}
		return b
	}},
	{"a class definition of 8k field names for a class the type map lacks, inside a list", func(k int) []byte {
		b := append([]byte{0x57, 'C', 0x04, 'N', 'o', 'n', 'e'}, encInt(int32(8*k))...)
		for i := 0; i < 8*k; i++ {
			b = append(b, 0x01, byte('a'+i%26))
		}
		return append(b, 0x90, 'Z')
	}},
	{"a class name of 2k dotted parts ending in a registered simple name, and k/2 instances", func(k int) []byte {
		n := 4*k + 5
		b := append([]byte{0x57, 'C', 'S'}, byte(n>>8), byte(n))
		for i := 0; i < 2*k; i++ {
			b = append(b, byte('a'+i%26), []byte{'.', '$'}[i%2])
		}
		b = append(b, "Inner"...)
		b = append(b, 0x91, 0x01, 'a')
		for i := 0; i < k/2; i++ {
			b = append(b, 0x60, 0x90)
		}
		return append(b, 'Z')
	}},
	{"one unknown field name of k characters and k instances", func(k int) []byte {
		b := append([]byte{'C', 0x05, 'I', 'n', 'n', 'e', 'r', 0x91, 'S'}, byte(k>>8), byte(k))
		for i := 0; i < k; i++ {
			b = append(b, 'x')
		}
		b = append(append(b, 0x58), encInt(int32(k))...)
		for i := 0; i < k; i++ {
			b = append(b, 0x60, 0x90)
		}
		return b
	}},
	{"one unknown field name of k/2 characters and k/2 instances opened inside one another, then the end of the input", func(k int) []byte {
		k /= 2
		b := append([]byte{'C', 0x05, 'I', 'n', 'n', 'e', 'r', 0x91, 'S'}, byte(k>>8), byte(k))
		for i := 0; i < k; i++ {
			b = append(b, 'q')
		}
		for i := 0; i < k; i++ {
			b = append(b, 0x60)
		}
		return b
	}},
	{"one unknown field name of k characters beginning with a non-ASCII letter and k instances", func(k int) []byte {
		b := append([]byte{'C', 0x05, 'I', 'n', 'n', 'e', 'r', 0x91, 'S'}, byte(k>>8), byte(k))
		b = append(b, 0xc3, 0xbc) // ü
		for i := 1; i < k; i++ {
			b = append(b, 'x')
		}
		b = append(append(b, 0x58), encInt(int32(k))...)
		for i := 0; i < k; i++ {
			b = append(b, 0x60, 0x90)
		}
		return b
	}},
	{"k objects whose pointer-to-slice field refers to one list of k nulls", func(k int) []byte {
		b := append([]byte{0x58}, encInt(int32(k+1))...)
		b = append(append(b, 0x58), encInt(int32(k))...)
		for i := 0; i < k; i++ {
			b = append(b, 'N')
		}
		b = append(b, "C\x08PtrConts\x91\x05likes"...)
		for i := 0; i < k; i++ {
			b = append(b, 0x60, 0x51, 0x91)
		}
		return b
	}},
	{"k nested lists each declaring k elements, then the end of the input", func(k int) []byte {
		var b []byte
		for i := 0; i < k; i++ {
			b = append(append(b, 0x58), encInt(int32(k))...)
		}
		return b
	}},
	{"a list of k lists that each hold one reference to the first list of k elements", func(k int) []byte {
		b := append([]byte{0x58}, encInt(int32(k+1))...)
		b = append(append(b, 0x58), encInt(int32(k))...)
		for i := 0; i < k; i++ {
			b = append(b, 0x90)
		}
		for i := 0; i < k; i++ {
			b = append(b, 0x79, 0x51, 0x91)
		}
		return b
	}},
	{"k/7 typed lists of seven references each to one list of 2k elements", func(k int) []byte {
		b := append([]byte{0x57, 0x58}, encInt(int32(2*k))...)
		for i := 0; i < 2*k; i++ {
			b = append(b, 0x90)
		}
		for i := 0; i < k/7; i++ {
			b = append(b, 0x77, 0x05, '[', '[', 'i', 'n', 't', 0x51, 0x91, 0x51, 0x91, 0x51, 0x91, 0x51, 0x91, 0x51, 0x91, 0x51, 0x91, 0x51, 0x91)
		}
		return append(b, 'Z')
	}},
	{"k nested lists each declaring 1024 elements", func(k int) []byte {
		var b []byte
		for i := 0; i < k; i++ {
			b = append(b, 0x58, 0xcc, 0x00)
		}
		return b
	}},
}

func judge(j job, v verdict) string {
	if v.status == 2 {
		return "panic: " + v.msg
	}
	limit := uint64(c14AllocBase + c14AllocPerByte*len(j.payload))
	if v.alloc > limit {
		return fmt.Sprintf("allocated %d octets for an input of %d octets (bound %d): memory follows a declared length, not the input", v.alloc, len(j.payload), limit)
	}
	return ""
}

func c14Fail(t *testing.T, j job, msg string) {
	directFail(t, "C14", map[string]interface{}{"entry": c14Entries[j.entry], "entry_index": fmt.Sprint(j.entry), "type_map": c14TypeMaps[j.tm], "type_map_index": fmt.Sprint(j.tm),
		"input_hex": hex.EncodeToString(j.payload), "origin": j.origin}, "C14 %s, %s type map, input of %d octets (%s): %s\n input: %s", c14Entries[j.entry], c14TypeMaps[j.tm], len(j.payload), j.origin, msg, hexClip(j.payload, 120))
}

func TestC14(t *testing.T) {
	r := rec.For("C14")
	if rc := replayCase(); rc != nil {
		in, _ := hex.DecodeString(rc["input_hex"].(string))
		e, _ := caseInt(rc, "entry_index")
		tm, _ := caseInt(rc, "type_map_index")
		j := job{entry: int(e), tm: int(tm), payload: in}
		v, ok := runAlone(j, 60*time.Second)
		if !ok {
			t.Fatalf("replay: the decoder does not return (or dies) on this input")
		}
		if msg := judge(j, v); msg != "" {
			t.Fatalf("replay: %s", msg)
		}
		if origin, _ := rc["origin"].(string); strings.HasPrefix(origin, "scaled:") {
			// a growth failure: decode the same family at half the scale again and compare
			parts := strings.SplitN(origin, ":", 3)
			k, _ := strconv.Atoi(parts[1])
			for _, fam := range c14Scaled {
				if len(parts) == 3 && fam.name == parts[2] {
					vs, ok := runAlone(job{entry: int(e), tm: int(tm), payload: fam.gen(k / 2)}, 60*time.Second)
					if ok && v.alloc > 64<<20 && v.alloc > 3*vs.alloc+(vs.alloc>>2) {
						t.Fatalf("replay: doubling the input multiplied the memory allocated by %.1f (%d -> %d octets)", float64(v.alloc)/float64(vs.alloc+1), vs.alloc, v.alloc)
					}
				}
			}
		}
		if v.nanos > c14SlowNanos {
			t.Fatalf("replay: %v for %d octets", time.Duration(v.nanos), len(in))
		}
		return
	}
	// ---- growth: every re-use family at scale k and 2k; about twice the cost is fine, four times is not
	if shard, _ := shardInfo(); shard == 0 {
		k0 := rec.EnvInt("VERIF_C14_SCALE", 4000)
		for fi, fam := range c14Scaled {
			for _, entry := range []int{0, 5} {
				for tmk := 0; tmk < 2; tmk++ {
					small := job{entry: entry, tm: tmk, payload: fam.gen(k0), origin: fmt.Sprintf("scaled:%d:%s", k0, fam.name)}
					big := job{entry: entry, tm: tmk, payload: fam.gen(2 * k0), origin: fmt.Sprintf("scaled:%d:%s", 2*k0, fam.name)}
					vs, ok1 := runAlone(small, 60*time.Second)
					vb, ok2 := runAlone(big, 120*time.Second)
					if !ok1 || !ok2 {
						c14Fail(t, big, "the decoder does not return (or dies) on this input")
						continue
					}
					if msg := judge(big, vb); msg != "" {
						c14Fail(t, big, msg)
					}
					if vb.alloc > 64<<20 && vb.alloc > 3*vs.alloc+(vs.alloc>>2) {
						c14Fail(t, big, fmt.Sprintf("doubling the input (%d -> %d octets, %s) multiplied the memory allocated by %.1f (%d -> %d octets): cost follows re-use x size, not the size of the input",
							len(small.payload), len(big.payload), fam.name, float64(vb.alloc)/float64(vs.alloc+1), vs.alloc, vb.alloc))
					}
					r.EvalN(2)
					r.NonTrivial(av.Hash(fmt.Sprint("scaled", fi, entry, tmk)))
				}
			}
		}
		r.Label("growth: cost at scale 2k vs scale k")
	}
	// ---- inputs nested as deep as they are long, through the one-shot and the streaming entry point (shard 0)
	if shard, _ := shardInfo(); shard == 0 {
		for di, b := range c14Deep() {
			for _, j := range []job{{entry: 0, tm: 0, payload: b, origin: "deep"}, {entry: 3, tm: 1, payload: b, origin: "deep"}, {entry: 5, tm: 0, payload: b, origin: "deep"}} {
				r.Current(fmt.Sprintf("C14 %s %s deep #%d (%d octets, begins %x)", c14Entries[j.entry], c14TypeMaps[j.tm], di, len(b), b[:24]))
				v, ok := runAlone(j, 60*time.Second)
				if !ok {
					c14Fail(t, j, "the call does not return: the worker process died (fatal error: stack overflow / out of memory under a 4 GiB limit) or ran for more than 60 s")
				} else if msg := judge(j, v); msg != "" {
					c14Fail(t, j, msg)
				}
				r.Eval()
				r.NonTrivial(av.Hash(fmt.Sprint("deep", di, j.entry, j.tm)))
			}
		}
		r.Label("nesting depth = input length (1 MiB of container tags, 300 000 nested instances)")
	}
	// ---- every input of two octets through the one-shot and the streaming entry point (shard 0)
	if shard, _ := shardInfo(); shard == 0 {
		w2, err := startWorker()
		if err != nil {
			t.Skipf("cannot start worker: %v", err)
		}
		for hi := 0; hi < 256; hi++ {
			jobs := make([]job, 0, 512)
			for lo := 0; lo < 256; lo++ {
				jobs = append(jobs, job{entry: 0, tm: 0, payload: []byte{byte(hi), byte(lo)}, origin: "two-octets"}, job{entry: 3, tm: 1, payload: []byte{byte(hi), byte(lo)}, origin: "two-octets"})
			}
			w2.send(jobs)
			for _, j := range jobs {
				v, ok := w2.recv(20 * time.Second)
				if !ok {
					w2.kill()
					v2, ok2 := runAlone(j, 60*time.Second)
					if !ok2 {
						c14Fail(t, j, "the decoder does not return (or dies) on this input")
					} else if msg := judge(j, v2); msg != "" {
						c14Fail(t, j, msg)
					}
					if w2, err = startWorker(); err != nil {
						t.Skipf("cannot restart worker: %v", err)
					}
					break
				}
				if msg := judge(j, v); msg != "" {
					c14Fail(t, j, msg)
				}
			}
			r.EvalN(int64(len(jobs)))
		}
		w2.kill()
		r.Label("all two-octet inputs")
	}
	// ---- corpus of valid messages (Go encoder over the zoo) via rapid
	g := &c14Gen{rng: seedFor("C14")}
	g.corpus = append(g.corpus, c14Fixed()...)
	cfg := zoo.DefaultCfg()
	cfg.MaxBig, cfg.Budget, cfg.NoBigStrings = 20, 120, true
	rapid.Check(t, func(rt *rapid.T) {
		zg := zoo.NewG(rt, cfg)
		v, _ := zg.Top()
		_, nm := hessian.ExtractTypeNameMap(v)
		if b, err := hessian.ToBytes(v, nm); err == nil && len(b) > 0 {
			g.corpus = append(g.corpus, b)
		}
		// the same value in a non-canonical rendering (variable-length lists, type refs,
		// long-form instances, hoisted definitions, chunked strings): more decoder branches
		if a, perr := zoo.Project(v, nm); perr == nil {
			opt := refcodec.EncOptions{HoistAnywhere: rapid.Bool().Draw(rt, "hoist"), MaxPadding: rapid.SampledFrom([]int{0, 0, 2, 17}).Draw(rt, "pad")}
			if b := refcodec.Encode(a, rapidChoices{rt}, opt); len(b) > 0 {
				g.corpus = append(g.corpus, b)
			}
		}
	})
	if t.Failed() {
		return
	}
	g.tokens = make([][]refcodec.Token, len(g.corpus))
	r.Note("valid_corpus_messages", len(g.corpus))

	fixedN := len(c14Fixed())
	total := rec.EnvInt("VERIF_C14_INPUTS", 20000)
	w, err := startWorker()
	if err != nil {
		t.Skipf("cannot start worker: %v", err)
	}
	defer func() { w.kill() }()
	const batch = 128
	done := 0
	sites := map[string]int{}
	for done < total {
		jobs := make([]job, 0, batch)
		for len(jobs) < batch && done+len(jobs) < total {
			if k := done + len(jobs); k < fixedN*len(c14Entries)*3 {
				// the fixed inputs (examples, Java strings, depth bombs) verbatim through every entry point with
				// every type map
				jobs = append(jobs, job{entry: k % len(c14Entries), tm: k / len(c14Entries) % 3, payload: g.corpus[k/(3*len(c14Entries))], origin: "fixed"})
				continue
			}
			b, origin := g.next()
			if len(b) > 65536 {
				b = b[:65536]
			}
			jobs = append(jobs, job{entry: g.n(len(c14Entries)), tm: g.n(3), payload: b, origin: origin})
		}
		// a send error means the worker died while the batch was still being written:
		// the verdicts it did deliver are read below, the first missing one names the culprit
		w.send(jobs)
		for i := 0; i < len(jobs); i++ {
			j := jobs[i]
			r.Current(fmt.Sprintf("C14 %s %s %s %x", c14Entries[j.entry], c14TypeMaps[j.tm], j.origin, j.payload))
			v, ok := w.recv(20 * time.Second)
			if !ok {
				// the worker died or is stuck on job i: confirm alone with a 60 s budget
				w.kill()
				v2, ok2 := runAlone(j, 60*time.Second)
				if !ok2 {
					c14Fail(t, j, "the call does not return: the worker process died (fatal error / out of memory under a 4 GiB limit) or ran for more than 60 s")
				}
				if msg := judge(j, v2); msg != "" {
					c14Fail(t, j, msg)
				}
				// not reproducible alone: resume after it
				r.Label("worker-restart-unconfirmed")
				w, err = startWorker()
				if err != nil {
					t.Fatalf("cannot restart worker: %v", err)
				}
				rest := jobs[i+1:]
				if len(rest) > 0 {
					w.send(rest)
				}
				jobs = rest
				i = -1
				done++
				continue
			}
			if msg := judge(j, v); msg != "" {
				if v.status == 2 {
					sites[v.msg]++
				}
				c14Fail(t, j, msg)
			}
			if v.nanos > c14SlowNanos {
				// slow: only a candidate; confirm alone
				v2, ok2 := runAlone(j, 60*time.Second)
				if !ok2 || v2.nanos > c14SlowNanos {
					c14Fail(t, j, fmt.Sprintf("took %v (alone: %v) for %d octets: time follows a declared length, not the input", time.Duration(v.nanos), time.Duration(v2.nanos), len(j.payload)))
				}
			}
			r.Eval()
			r.Label("origin:" + originClass(j.origin))
			r.Label("entry:" + c14Entries[j.entry])
			r.Label("typemap:" + c14TypeMaps[j.tm])
			r.Label([]string{"outcome:value", "outcome:error"}[v.status])
			// non-trivial: really malformed (the reference decoder rejects it), not a tiny prefix
			if len(j.payload) >= 2 {
				if _, _, derr := refcodec.Decode(j.payload); derr != nil {
					r.NonTrivial(av.Hash(string(j.payload)) ^ uint64(j.entry)<<3 ^ uint64(j.tm))
				}
			}
			r.Sample(func() interface{} {
				return map[string]interface{}{"entry": c14Entries[j.entry], "type_map": c14TypeMaps[j.tm], "origin": j.origin, "octets": len(j.payload), "input": hexClip(j.payload, 64), "outcome": []string{"value", "error"}[v.status], "allocated": v.alloc}
			})
		}
		done += len(jobs)
	}
	_ = os.Getenv
}

func originClass(o string) string {
	for i := 0; i < len(o); i++ {
		if o[i] == ':' {
			return o[:i]
		}
	}
	return o
}
