package props

import (
	"errors"
	"fmt"
	"io"
	"testing"

	hessian "github.com/vogo/gohessian"
	"pgregory.net/rapid"

	"verif/harness/av"
	"verif/harness/rec"
	"verif/harness/zoo"
)

// faultWriter fails on the k-th Write call (1-based).
//
//	mode 0: error at call k only          mode 1: error at call k and every later call
//	mode 2: short write (n = len-1, nil error) at call k only    mode 3: short from k on
type faultWriter struct {
	k, mode int
	calls   int
	bytes   int
	flusher bool // present the destination through a type that also has Flush() error
}

var errInjected = errors.New("injected write failure")

func (w *faultWriter) Write(p []byte) (int, error) {
	w.calls++
	hit := w.k > 0 && (w.calls == w.k || (w.calls > w.k && (w.mode == 1 || w.mode == 3)))
	if !hit {
		w.bytes += len(p)
		return len(p), nil
	}
	if w.mode <= 1 {
		return 0, errInjected
	}
	n := len(p) - 1
	if n < 0 {
		n = 0
	}
	w.bytes += n
	return n, nil
}

var _ io.Writer = (*faultWriter)(nil)

// flushingFaultWriter: the same destination with a Flush method that always succeeds (a
// writer whose Flush does not repeat an earlier write error).
type flushingFaultWriter struct{ *faultWriter }

func (flushingFaultWriter) Flush() error { return nil }

var c15Entry = []string{"Encoder.WriteTo", "NewEncoder(w).WriteObject", "Serializer.WriteTo", "Serializer.Write(second value)",
	"Encoder.WriteTo after a failed WriteTo on the same Encoder", "Serializer.WriteTo after a failed ToBytes on the same Serializer"}

// encodeVia runs one encode entry point against w.
func encodeVia(entry int, fw *faultWriter, v interface{}, nm map[string]string) (err error, pv interface{}, st string) {
	var w io.Writer = fw
	if fw.flusher {
		w = flushingFaultWriter{fw}
	}
	pv, st = guard(func() {
		switch entry {
		case 0:
			err = hessian.NewEncoder(nil, nm).WriteTo(w, v)
		case 1:
			err = hessian.NewEncoder(w, nm).WriteObject(v)
		case 2:
			err = hessian.NewSerializer(nil, nm).WriteTo(w, v)
		case 4:
			e := hessian.NewEncoder(nil, nm)
			e.WriteTo(&faultWriter{k: 2, mode: 1}, v)        // fails (or not, for one-write values)
			e.WriteTo(&faultWriter{k: 1, mode: 0}, int32(5)) // fails at once
			err = e.WriteTo(w, v)
		case 5:
			s := hessian.NewSerializer(nil, nm)
			s.ToBytes([]interface{}{int32(1), make(chan int)}) // fails: unsupported element
			s.WriteTo(&faultWriter{k: 3, mode: 3}, v)
			err = s.WriteTo(w, v)
		case 3:
			// a first value goes to the same writer before the fault window opens
			s := hessian.NewSerializer(nil, nm)
			k := fw.k
			fw.k = 0
			if e := s.WriteTo(w, int32(7)); e != nil {
				err = fmt.Errorf("unfaulted first write failed: %v", e)
				return
			}
			fw.k = k
			if k > 0 {
				fw.k = k + fw.calls
			}
			base := fw.calls
			err = s.Write(v)
			fw.calls -= base
		}
	})
	return
}

func TestC15(t *testing.T) {
	r := rec.For("C15")
	cfg := zoo.DefaultCfg()
	cfg.MaxBig = 24
	cfg.Budget = 120
	cfg.NoBigStrings = true
	check(t, "C15", func(rt *rapid.T, c *caseInfo) {
		g := zoo.NewG(rt, cfg)
		v, shape := g.Top()
		if _, perr := zoo.Project(v, nil); perr != nil {
			rt.Skip("unrepresentable")
		}
		if rapid.IntRange(0, 7).Draw(rt, "withBigBinary") == 0 {
			// a binary of several chunks: chunk headers and bodies are writes of their own
			n := rapid.IntRange(4090, 9000).Draw(rt, "bigBinary")
			v, shape = []interface{}{v, make([]byte, n), "tail"}, "slice:[]interface{}+binary"
		}
		_, nm := hessian.ExtractTypeNameMap(v)
		desc := zoo.Describe(v, 400)
		c.set("shape", shape)
		c.set("value", desc)
		entry := rapid.IntRange(0, len(c15Entry)-1).Draw(rt, "entry")
		flusher := rapid.Bool().Draw(rt, "destinationHasFlush")
		c.set("entry", c15Entry[entry])
		// unfaulted run: count the Write calls
		w0 := &faultWriter{}
		err, pv, st := encodeVia(entry, w0, v, copyNames(nm))
		if pv != nil {
			failf(rt, c, "C15 %s via %s: panic without any fault: %v [%s]", shape, c15Entry[entry], pv, st)
		}
		if err != nil {
			rt.Skip("value does not encode (C01/C13's subject)")
		}
		W := w0.calls
		r.Current(fmt.Sprintf("C15 %s %s W=%d %s", shape, c15Entry[entry], W, desc))
		h := av.Hash(shape + desc)
		for k := 1; k <= W; k++ {
			for mode := 0; mode < 4; mode++ {
				w := &faultWriter{k: k, mode: mode, flusher: flusher}
				err, pv, st := encodeVia(entry, w, v, copyNames(nm))
				r.Eval()
				if k > 1 && k < W {
					r.NonTrivial(h ^ uint64(k)<<8 ^ uint64(mode)<<2 ^ uint64(entry))
				}
				if pv != nil {
					c.set("k", k)
					c.set("mode", mode)
					failf(rt, c, "C15 %s via %s: panic when Write call %d of %d fails (mode %d): %v [%s]\n value: %s", shape, c15Entry[entry], k, W, mode, pv, st, desc)
				}
				if err == nil {
					c.set("k", k)
					c.set("mode", mode)
					failf(rt, c, "C15 %s via %s: Write call %d of %d %s, yet the encode call returned nil\n value: %s", shape, c15Entry[entry], k, W,
						[]string{"returned an error once", "returned an error from then on", "was short (n=len-1, nil error) once", "was short from then on"}[mode], desc)
				}
			}
		}
		r.Label("entry:" + c15Entry[entry])
		r.Label(fmt.Sprintf("writes:%s", bucket(W)))
		r.Sample(func() interface{} {
			return map[string]interface{}{"shape": shape, "entry": c15Entry[entry], "write_calls": W, "faulted_runs": 4 * W, "value": zoo.Describe(v, 200)}
		})
	})
}

func bucket(n int) string {
	switch {
	case n <= 1:
		return "1"
	case n <= 4:
		return "2-4"
	case n <= 16:
		return "5-16"
	case n <= 64:
		return "17-64"
	}
	return "65+"
}

func copyNames(nm map[string]string) map[string]string {
	if nm == nil {
		return nil
	}
	out := make(map[string]string, len(nm))
	for k, v := range nm {
		out[k] = v
	}
	return out
}
