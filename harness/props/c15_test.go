package props

import (
	"bytes"
	"errors"
	"fmt"
	"io"
	"strings"
	"testing"

	hessian "github.com/vogo/gohessian"
	"pgregory.net/rapid"

	"verif/harness/av"
	"verif/harness/rec"
	"verif/harness/zoo"
)

// faultWriter fails on the k-th Write call (1-based).
//
//	mode 0: error at call k only          mode 1: error at call k and every later call
//	mode 2: short write (n = len-1, nil error) at call k only    mode 3: short from k on
//	mode 4: nothing taken (n = 0, nil error) at call k only      mode 5: half taken (n = len/2, nil error) at call k only
//	mode 6: everything taken AND an error returned at call k only
type faultWriter struct {
	k, mode int
	calls   int
	bytes   int
	flusher bool   // present the destination through a type that also has Flush() error
	byter   bool   // ... or through a type that also has WriteByte (io.ByteWriter), like a bufio.Writer
	keep    bool   // record the octets accepted
	acc     []byte // octets accepted so far (keep only)
}

const c15Modes = 7

var c15ModeText = []string{"returned an error once", "returned an error from then on", "was short (n=len-1, nil error) once", "was short from then on",
	"took nothing (n=0, nil error) once", "took half (n=len/2, nil error) once", "took everything and returned an error all the same, once"}

var errInjected = errors.New("injected write failure")

// error values of dynamic types that cannot be compared with == (an aggregate of errors, a struct with a list):
// what destinations built on fan-out writers and validators return
type errList []error

func (e errList) Error() string { return fmt.Sprintf("%d injected write failures", len(e)) }

type errDetail struct {
	Op    string
	Parts []string
}

func (e errDetail) Error() string { return "injected write failure in " + e.Op }

// failure is the error this destination reports (its type depends on the window, so that every kind is met
// at every position over a run)
func (w *faultWriter) failure() error {
	switch (w.k + w.mode) % 3 {
	case 1:
		return errList{errInjected, errInjected}
	case 2:
		return errDetail{Op: "write", Parts: []string{"a"}}
	}
	return errInjected
}

func (w *faultWriter) Write(p []byte) (int, error) {
	w.calls++
	hit := w.k > 0 && (w.calls == w.k || (w.calls > w.k && (w.mode == 1 || w.mode == 3)))
	if !hit {
		w.bytes += len(p)
		if w.keep {
			w.acc = append(w.acc, p...)
		}
		return len(p), nil
	}
	if w.mode <= 1 {
		return 0, w.failure()
	}
	if w.mode == 6 {
		// the error comes with a full count (the data went out, the connection then failed)
		w.bytes += len(p)
		if w.keep {
			w.acc = append(w.acc, p...)
		}
		return len(p), w.failure()
	}
	n := len(p) - 1
	switch w.mode {
	case 4:
		n = 0
	case 5:
		n = len(p) / 2
		if n == len(p) {
			n = 0
		}
	}
	if n < 0 {
		n = 0
	}
	w.bytes += n
	if w.keep {
		w.acc = append(w.acc, p[:n]...)
	}
	return n, nil
}

var _ io.Writer = (*faultWriter)(nil)

// flushingFaultWriter: the same destination with a Flush method that always succeeds (a
// writer whose Flush does not repeat an earlier write error).
type flushingFaultWriter struct{ *faultWriter }

func (flushingFaultWriter) Flush() error { return nil }

// byteFaultWriter: the same destination offering WriteByte as well; a single octet handed over that way is a write
// like any other (it can fail or come up short)
type byteFaultWriter struct{ *faultWriter }

func (w byteFaultWriter) WriteByte(b byte) error {
	n, err := w.faultWriter.Write([]byte{b})
	if err == nil && n < 1 {
		return io.ErrShortWrite
	}
	return err
}

// richFaultWriter: the same destination with the whole method set of a bufio.Writer or bytes.Buffer - WriteByte,
// WriteString and ReadFrom. io.WriteString and io.Copy prefer those methods to Write; whatever goes through them is
// a write like any other.
type richFaultWriter struct{ byteFaultWriter }

func (w richFaultWriter) WriteString(s string) (int, error) {
	n, err := w.faultWriter.Write([]byte(s))
	if err == nil && n < len(s) {
		return n, io.ErrShortWrite
	}
	return n, err
}

func (w richFaultWriter) ReadFrom(r io.Reader) (int64, error) {
	var total int64
	buf := make([]byte, 512)
	for {
		n, rerr := r.Read(buf)
		if n > 0 {
			m, werr := w.faultWriter.Write(buf[:n])
			total += int64(m)
			if werr != nil {
				return total, werr
			}
			if m < n {
				return total, io.ErrShortWrite
			}
		}
		if rerr == io.EOF {
			return total, nil
		}
		if rerr != nil {
			return total, rerr
		}
	}
}

// present wraps fw the way the case asks for
func present(fw *faultWriter) io.Writer {
	switch {
	case fw.flusher:
		return flushingFaultWriter{fw}
	case fw.byter && fw.k%2 == 0:
		return richFaultWriter{byteFaultWriter{fw}}
	case fw.byter:
		return byteFaultWriter{fw}
	}
	return fw
}

var c15Entry = []string{"Encoder.WriteTo", "NewEncoder(w).WriteObject", "Serializer.WriteTo", "Serializer.Write(second value)",
	"Encoder.WriteTo after a failed WriteTo on the same Encoder", "Serializer.WriteTo after a failed ToBytes on the same Serializer"}

// encodeVia runs one encode entry point against w.
func encodeVia(entry int, fw *faultWriter, v interface{}, nm map[string]string) (err error, pv interface{}, st string) {
	w := present(fw)
	pv, st = guard(func() {
		switch entry {
		case 0:
			err = hessian.NewEncoder(nil, nm).WriteTo(w, v)
		case 1:
			err = hessian.NewEncoder(w, nm).WriteObject(v)
		case 2:
			err = hessian.NewSerializer(nil, nm).WriteTo(w, v)
		case 4:
			e := hessian.NewEncoder(nil, nm)
			e.WriteTo(&faultWriter{k: 2, mode: 1}, v)        // fails (or not, for one-write values)
			e.WriteTo(&faultWriter{k: 1, mode: 0}, int32(5)) // fails at once
			err = e.WriteTo(w, v)
		case 5:
			s := hessian.NewSerializer(nil, nm)
			s.ToBytes([]interface{}{int32(1), make(chan int)}) // fails: unsupported element
			s.WriteTo(&faultWriter{k: 3, mode: 3}, v)
			err = s.WriteTo(w, v)
		case 3:
			// a first value goes to the same writer before the fault window opens
			s := hessian.NewSerializer(nil, nm)
			k := fw.k
			fw.k = 0
			if e := s.WriteTo(w, int32(7)); e != nil {
				err = fmt.Errorf("unfaulted first write failed: %v", e)
				return
			}
			fw.k = k
			if k > 0 {
				fw.k = k + fw.calls
			}
			base := fw.calls
			err = s.Write(v)
			fw.calls -= base
		}
	})
	return
}

// c15Next is written after a failed call; its encoding does not depend on what the stream carried before.
var c15Next = []interface{}{"next", int32(7), true}
var c15NextBytes = []byte{0x58, 0x93, 0x04, 'n', 'e', 'x', 't', 0x97, 'T'}

// followUp: one encoder (entry 1) or serializer (entry 3) on one writer; the first value runs into the fault,
// then c15Next is written with WriteObject / Write and no Reset in between.
func followUp(entry, k, mode int, flusher, byter bool, v interface{}, nm map[string]string) string {
	// the next value is a small list, or nothing but a lone tag (null, an empty map): writes nobody looks at
	// the result of
	for _, next := range []struct {
		v     interface{}
		bytes []byte
	}{{c15Next, c15NextBytes}, {nil, []byte{'N'}}, {map[string]int32{}, []byte{'N'}}} {
		fw := &faultWriter{k: k, mode: mode, flusher: flusher, byter: byter, keep: true}
		w := present(fw)
		var err2 error
		mark := 0
		pv, st := guard(func() {
			if entry == 1 {
				e := hessian.NewEncoder(w, nm)
				e.WriteObject(v)
				mark = len(fw.acc)
				err2 = e.WriteObject(next.v)
			} else {
				s := hessian.NewSerializer(nil, nm)
				s.WriteTo(w, v)
				mark = len(fw.acc)
				err2 = s.Write(next.v)
			}
		})
		if pv != nil {
			return fmt.Sprintf("the next write on the same stream panicked: %v [%s]", pv, st)
		}
		if err2 == nil && !bytes.Equal(fw.acc[mark:], next.bytes) {
			return fmt.Sprintf("the next write on the same stream (%v) returned nil although the writer received %s of its octets %s", next.v, hexClip(fw.acc[mark:], 24), hexClip(next.bytes, 24))
		}
	}
	return ""
}

func TestC15(t *testing.T) {
	r := rec.For("C15")
	cfg := zoo.DefaultCfg()
	cfg.MaxBig = 24
	cfg.Budget = 120
	cfg.NoBigStrings = true
	check(t, "C15", func(rt *rapid.T, c *caseInfo) {
		g := zoo.NewG(rt, cfg)
		v, shape := g.Top()
		if _, perr := zoo.Project(v, nil); perr != nil {
			rt.Skip("unrepresentable")
		}
		if rapid.IntRange(0, 7).Draw(rt, "withBigBinary") == 0 {
			// a binary of several chunks: chunk headers and bodies are writes of their own
			n := rapid.IntRange(4090, 9000).Draw(rt, "bigBinary")
			v, shape = []interface{}{v, make([]byte, n), "tail"}, "slice:[]interface{}+binary"
		}
		if rapid.IntRange(0, 5).Draw(rt, "withLongList") == 0 {
			// a list of more than 64 elements, at the end of the message or followed by something
			n := rapid.IntRange(65, 300).Draw(rt, "longList")
			l := make([]int32, n)
			for i := range l {
				l[i] = int32(i * 37)
			}
			switch rapid.IntRange(0, 2).Draw(rt, "longListAt") {
			case 0:
				v, shape = l, "slice:[]int32>64"
			case 1:
				v, shape = []interface{}{v, l}, "slice:[]interface{}+list>64 last"
			default:
				v, shape = []interface{}{l, v, "tail"}, "slice:[]interface{}+list>64 first"
			}
		}
		if rapid.IntRange(0, 11).Draw(rt, "withBigLeaf") == 0 {
			// one leaf whose encoding is a single payload of more than 64 KiB
			n := rapid.IntRange(65536, 70000).Draw(rt, "bigLeaf")
			if rapid.Bool().Draw(rt, "bigLeafIsString") {
				v, shape = []interface{}{v, strings.Repeat("a", n), "tail"}, "slice:[]interface{}+string>64KiB"
			} else {
				v, shape = []interface{}{v, make([]byte, n), "tail"}, "slice:[]interface{}+binary>64KiB"
			}
		}
		_, nm := hessian.ExtractTypeNameMap(v)
		desc := zoo.Describe(v, 400)
		c.set("shape", shape)
		c.set("value", desc)
		entry := rapid.IntRange(0, len(c15Entry)-1).Draw(rt, "entry")
		flusher := rapid.Bool().Draw(rt, "destinationHasFlush")
		byter := !flusher && rapid.Bool().Draw(rt, "destinationHasWriteByte")
		c.set("entry", c15Entry[entry])
		// unfaulted run: count the Write calls
		w0 := &faultWriter{}
		err, pv, st := encodeVia(entry, w0, v, copyNames(nm))
		if pv != nil {
			failf(rt, c, "C15 %s via %s: panic without any fault: %v [%s]", shape, c15Entry[entry], pv, st)
		}
		if err != nil {
			rt.Skip("value does not encode (C01/C13's subject)")
		}
		W := w0.calls
		r.Current(fmt.Sprintf("C15 %s %s W=%d %s", shape, c15Entry[entry], W, desc))
		h := av.Hash(shape + desc)
		for k := 1; k <= W; k++ {
			for mode := 0; mode < c15Modes; mode++ {
				w := &faultWriter{k: k, mode: mode, flusher: flusher, byter: byter}
				err, pv, st := encodeVia(entry, w, v, copyNames(nm))
				r.Eval()
				if k > 1 && k < W {
					r.NonTrivial(h ^ uint64(k)<<8 ^ uint64(mode)<<2 ^ uint64(entry))
				}
				if pv != nil {
					c.set("k", k)
					c.set("mode", mode)
					failf(rt, c, "C15 %s via %s: panic when Write call %d of %d fails (mode %d): %v [%s]\n value: %s", shape, c15Entry[entry], k, W, mode, pv, st, desc)
				}
				if err == nil {
					c.set("k", k)
					c.set("mode", mode)
					failf(rt, c, "C15 %s via %s: Write call %d of %d %s, yet the encode call returned nil\n value: %s", shape, c15Entry[entry], k, W, c15ModeText[mode], desc)
				}
				// the next value on the same stream, without a Reset (the documented continuous-write use): the call
				// fails, or every octet of that value reached the writer
				if entry == 1 || entry == 3 {
					if msg := followUp(entry, k, mode, flusher, byter, v, copyNames(nm)); msg != "" {
						c.set("k", k)
						c.set("mode", mode)
						failf(rt, c, "C15 %s via %s: Write call %d of %d %s (reported), then %s\n value: %s", shape, c15Entry[entry], k, W, c15ModeText[mode], msg, desc)
					}
					r.Eval()
				}
			}
		}
		r.Label("entry:" + c15Entry[entry])
		r.Label(fmt.Sprintf("writes:%s", bucket(W)))
		if byter {
			r.Label("destination offers WriteByte (for even fault positions also WriteString and ReadFrom)")
		}
		if strings.Contains(shape, "KiB") {
			r.Label("one leaf of more than 64 KiB")
		}
		if entry == 1 || entry == 3 {
			r.Label("followed by a further write on the same stream")
		}
		r.Sample(func() interface{} {
			return map[string]interface{}{"shape": shape, "entry": c15Entry[entry], "write_calls": W, "faulted_runs": c15Modes * W, "value": zoo.Describe(v, 200)}
		})
	})
}

func bucket(n int) string {
	switch {
	case n <= 1:
		return "1"
	case n <= 4:
		return "2-4"
	case n <= 16:
		return "5-16"
	case n <= 64:
		return "17-64"
	}
	return "65+"
}

func copyNames(nm map[string]string) map[string]string {
	if nm == nil {
		return nil
	}
	out := make(map[string]string, len(nm))
	for k, v := range nm {
		out[k] = v
	}
	return out
}
