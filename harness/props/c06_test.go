package props

import (
	"bytes"
	"fmt"
	"io"
	"reflect"
	"runtime"
	"strings"
	"testing"
	"time"
	"unicode/utf8"

	hessian "github.com/vogo/gohessian"
	"pgregory.net/rapid"

	"verif/harness/av"
	"verif/harness/rec"
	"verif/harness/refcodec"
	"verif/harness/vcmp"
	"verif/harness/zoo"
)

// countingReader is a ByteRuneReader over a byte slice with no read-ahead: Read
// hands out at most what is asked for, ReadRune exactly one UTF-8 sequence.
type countingReader struct {
	b   []byte
	pos int
	max int // > 0: hand out at most max octets per Read (a reader is free to deliver less than asked for)
	// eofWithData: the Read that hands out the last octets reports io.EOF together with them, as the io.Reader
	// contract allows ("a Reader returning a non-zero number of bytes at the end of the input stream may return
	// either err == EOF or err == nil")
	eofWithData bool
}

func (c *countingReader) Read(p []byte) (int, error) {
	if len(p) == 0 {
		return 0, nil
	}
	if c.pos >= len(c.b) {
		return 0, io.EOF
	}
	if c.max > 0 && len(p) > c.max {
		p = p[:c.max]
	}
	n := copy(p, c.b[c.pos:])
	c.pos += n
	if c.eofWithData && c.pos >= len(c.b) {
		return n, io.EOF
	}
	return n, nil
}

func (c *countingReader) ReadRune() (rune, int, error) {
	if c.pos >= len(c.b) {
		return 0, 0, io.EOF
	}
	r, sz := utf8.DecodeRune(c.b[c.pos:])
	c.pos += sz
	return r, sz, nil
}

// writeOnly hides every method of the destination but Write.
type writeOnly struct{ w io.Writer }

func (w writeOnly) Write(p []byte) (int, error) { return w.w.Write(p) }

// c06ShortLived: a producer loop on one stream - every value is garbage as soon as it is written, and collections
// run in between, so the memory of an earlier value is handed out again for a later one. Whatever the encoder
// remembers about values it has written must not take the new object for the old one.
func c06ShortLived(via string, n int) string {
	var buf bytes.Buffer
	tm, nm := hessian.ExtractTypeNameMap([]interface{}{&zoo.Inner{}, &zoo.SlVal{L: []zoo.Inner{{}}}})
	var enc *hessian.Encoder
	var ser hessian.Serializer
	if via == "Serializer" {
		ser = hessian.NewSerializer(tm, nm)
	} else {
		enc = hessian.NewEncoder(&buf, nm)
	}
	for i := 0; i < n; i++ {
		var v interface{}
		switch i % 3 {
		case 0:
			v = &zoo.Inner{A: int32(i), S: "p"}
		case 1:
			v = zoo.Inner{A: int32(i), S: "v"} // by value: the encoder works on a copy of its own
		default:
			v = &zoo.SlVal{L: []zoo.Inner{{A: int32(i), S: "a"}, {A: int32(-i), S: "b"}}}
		}
		var err error
		switch {
		case enc != nil:
			err = enc.WriteObject(v)
		case i == 0:
			err = ser.WriteTo(&buf, v)
		default:
			err = ser.Write(v)
		}
		if err != nil {
			return fmt.Sprintf("write #%d failed: %v", i, err)
		}
		if i%37 == 36 {
			runtime.GC()
		}
	}
	rd := &countingReader{b: buf.Bytes()}
	dec := hessian.NewDecoder(rd, tm)
	for i := 0; i < n; i++ {
		out, err := dec.ReadObject()
		if err != nil {
			return fmt.Sprintf("read #%d failed: %v", i, err)
		}
		got := int32(0)
		switch x := out.(type) {
		case *zoo.Inner:
			got = x.A
		case zoo.Inner:
			got = x.A
		case *zoo.SlVal:
			if len(x.L) != 2 || x.L[1].A != int32(-i) {
				return fmt.Sprintf("read #%d: list came back as %+v", i, x.L)
			}
			got = x.L[0].A
		default:
			return fmt.Sprintf("read #%d: %T", i, out)
		}
		if got != int32(i) {
			return fmt.Sprintf("value #%d of a stream of short-lived values came back as value #%d (an earlier value's memory was reused and taken for the earlier value)", i, got)
		}
	}
	return ""
}

var hessianPkg = reflect.TypeOf(hessian.ClassDef{}).PkgPath()
var reflectValueType = reflect.TypeOf(reflect.Value{})

// carrierScreen: the result's dynamic type tree holds only documented Go types —
// no unexported type of the library, no reflect.Value.
func carrierScreen(v interface{}) string {
	seen := map[uintptr]bool{}
	var walk func(rv reflect.Value, path string, depth int) string
	walk = func(rv reflect.Value, path string, depth int) string {
		if !rv.IsValid() || depth > 60 {
			return ""
		}
		t := rv.Type()
		if t == reflectValueType {
			return path + " is a reflect.Value"
		}
		base := t
		for base.Kind() == reflect.Ptr {
			base = base.Elem()
		}
		if base.PkgPath() == hessianPkg && base.Name() != "" && !(base.Name()[0] >= 'A' && base.Name()[0] <= 'Z') {
			return fmt.Sprintf("%s is the library-internal type %v", path, t)
		}
		switch rv.Kind() {
		case reflect.Interface:
			if !rv.IsNil() {
				return walk(rv.Elem(), path, depth+1)
			}
		case reflect.Ptr:
			if rv.IsNil() || seen[rv.Pointer()] {
				return ""
			}
			seen[rv.Pointer()] = true
			return walk(rv.Elem(), path, depth+1)
		case reflect.Struct:
			if t == zoo.TimeType {
				return ""
			}
			for i := 0; i < rv.NumField(); i++ {
				if t.Field(i).PkgPath != "" {
					continue
				}
				if m := walk(rv.Field(i), path+"."+t.Field(i).Name, depth+1); m != "" {
					return m
				}
			}
		case reflect.Slice:
			if t.Elem().Kind() == reflect.Uint8 {
				return ""
			}
			for i := 0; i < rv.Len(); i++ {
				if m := walk(rv.Index(i), fmt.Sprintf("%s[%d]", path, i), depth+1); m != "" {
					return m
				}
			}
		case reflect.Map:
			it := rv.MapRange()
			for it.Next() {
				if m := walk(it.Key(), path+"[key]", depth+1); m != "" {
					return m
				}
				if m := walk(it.Value(), path+"[value]", depth+1); m != "" {
					return m
				}
			}
		}
		return ""
	}
	return walk(reflect.ValueOf(v), "result", 0)
}

// values the encoder refuses before anything is written
type c06Hidden struct {
	A    int32
	hits int32
}

var c06Refused = []struct {
	name string
	v    interface{}
}{
	{"struct with an unexported field", c06Hidden{A: 1, hits: 2}},
	{"*struct with an unexported field", &c06Hidden{A: 1, hits: 2}},
	{"chan", make(chan int)},
	{"func", func() {}},
	{"complex128", complex(1, 2)},
}

func TestC06(t *testing.T) {
	r := rec.For("C06")
	cfg := zoo.DefaultCfg()
	cfg.MaxBig = 40
	cfg.Budget = 250
	cfg.NoBigStrings = true
	for _, via := range []string{"Encoder/Decoder", "Serializer"} {
		if msg := c06ShortLived(via, 4000); msg != "" {
			directFail(t, "C06", map[string]interface{}{"api": via, "stream": "4000 short-lived values, a collection every 37 writes"}, "C06 %s: %s", via, msg)
		}
		r.Eval()
		r.NonTrivial(av.Hash("short-lived/" + via))
		r.Label("stream of short-lived values with collections in between")
	}
	check(t, "C06", func(rt *rapid.T, c *caseInfo) {
		n := rapid.IntRange(1, 12).Draw(rt, "streamLen")
		if rapid.IntRange(0, 7).Draw(rt, "long") == 0 {
			n = rapid.IntRange(13, 50).Draw(rt, "streamLenLong")
		}
		vals := make([]interface{}, 0, n)
		kinds := make([]string, 0, n)
		var ptrs []interface{} // pointers to structs written so far (candidates for a repeat)
		var classes []reflect.Type
		var conts []interface{} // non-empty slices and maps written so far
		for i := 0; i < n; i++ {
			k := rapid.IntRange(0, 9).Draw(rt, "valueKind")
			switch {
			case k == 0 && len(ptrs) > 0:
				// the same pointer again: must travel as a back-reference and come back identical
				vals = append(vals, ptrs[rapid.IntRange(0, len(ptrs)-1).Draw(rt, "again")])
				kinds = append(kinds, "repeat-pointer")
			case k == 1 && len(classes) > 0:
				// another instance of a class already defined on the stream
				typ := classes[rapid.IntRange(0, len(classes)-1).Draw(rt, "sameClass")]
				g := zoo.NewG(rt, cfg)
				p := reflect.New(typ)
				p.Elem().Set(g.Value(typ))
				vals = append(vals, p.Interface())
				ptrs = append(ptrs, p.Interface())
				kinds = append(kinds, "same-class:"+typ.Name())
			case k == 3 && len(conts) > 0:
				// the same non-empty slice or map again: travels as a back-reference to a list / map
				vals = append(vals, conts[rapid.IntRange(0, len(conts)-1).Draw(rt, "againContainer")])
				kinds = append(kinds, "repeat-container")
			case k == 4 && len(conts) > 0:
				// a struct whose typed field IS a list sent earlier on its own: a back-reference
				// that has to be bound to a struct field
				cv := conts[rapid.IntRange(0, len(conts)-1).Draw(rt, "fieldOfEarlier")]
				var w interface{}
				switch x := cv.(type) {
				case []int32:
					w = &zoo.SlI32{L: x}
				case []string:
					w = &zoo.SlStr{L: x}
				case []*zoo.Inner:
					w = &zoo.SlPtr{L: x}
				case []zoo.Inner:
					w = &zoo.SlVal{L: x}
				case []int64:
					w = &zoo.SlI64{L: x}
				case []float64:
					w = &zoo.SlF64{L: x}
				case []interface{}:
					w = &zoo.AnyList{N: 1, L: x}
				case map[interface{}]interface{}:
					w = &zoo.AnyMap{M: x}
				case map[string]int32:
					w = &zoo.MpStrI32{M: x}
				case map[string]string:
					w = &zoo.MpStrStr{M: x}
				default:
					w = []interface{}{cv, cv}
				}
				vals = append(vals, w)
				kinds = append(kinds, "field-refers-to-earlier-value")
			case k == 5 && rapid.Bool().Draw(rt, "longTyped"):
				// a typed list longer than any pre-allocation bound of the decoder, with further values behind it
				ln := rapid.SampledFrom([]int{65, 66, 100, 257, 300}).Draw(rt, "longLen")
				var v interface{}
				switch rapid.IntRange(0, 4).Draw(rt, "longElem") {
				case 0:
					l := make([]string, ln)
					for j := range l {
						l[j] = fmt.Sprintf("s%d", j%7)
					}
					v = l
				case 1:
					l := make([]int32, ln)
					for j := range l {
						l[j] = int32(j * 1000)
					}
					v = l
				case 2:
					l := make([]*zoo.Inner, ln)
					for j := range l {
						if j%5 != 4 {
							l[j] = &zoo.Inner{A: int32(j), S: "e"}
						}
					}
					v = &zoo.SlPtr{L: l}
				case 3:
					l := make([]time.Time, ln)
					for j := range l {
						if j%9 != 3 { // zero timestamps in between
							l[j] = time.UnixMilli(int64(j) * 86400000)
						}
					}
					v = l
				default:
					l := make([]float64, ln)
					for j := range l {
						l[j] = float64(j) / 8
					}
					v = &zoo.SlF64{L: l}
				}
				vals = append(vals, v)
				kinds = append(kinds, fmt.Sprintf("long-typed-list(%d):%T", ln, v))
				if rv := reflect.ValueOf(v); rv.Kind() == reflect.Slice {
					conts = append(conts, v)
				}
			case k == 6 && rapid.IntRange(0, 3).Draw(rt, "manyContainers") == 0:
				// one message with more than a thousand lists / maps / objects: the tables of a long-lived stream
				cnt := rapid.SampledFrom([]int{300, 1030, 1100, 2100}).Draw(rt, "containers")
				l := make([]interface{}, cnt)
				for j := range l {
					switch j % 3 {
					case 0:
						l[j] = []interface{}{int32(j)}
					case 1:
						l[j] = map[interface{}]interface{}{"k": int32(j)}
					default:
						l[j] = &zoo.K00{A: int32(j)}
					}
				}
				vals = append(vals, l)
				kinds = append(kinds, fmt.Sprintf("message-of-%d-containers", cnt+1))
				ptrs = append(ptrs, l[2])
				classes = append(classes, reflect.TypeOf(zoo.K00{}))
			case k == 7 && len(ptrs) > 0 && rapid.Bool().Draw(rt, "keyedByEarlierPointer"):
				// a map one of whose KEYS is an object sent earlier on the stream: the key travels as a back-reference
				kp := ptrs[rapid.IntRange(0, len(ptrs)-1).Draw(rt, "keyPointer")]
				vals = append(vals, map[interface{}]interface{}{kp: "owner", "n": int32(len(vals))})
				kinds = append(kinds, "map-keyed-by-earlier-pointer")
			case k == 2:
				vals = append(vals, rapid.SampledFrom([]interface{}{nil, "", time.Time{}, map[string]int32{}, (*zoo.Inner)(nil)}).Draw(rt, "nullish"))
				kinds = append(kinds, "null-rendered")
			default:
				g := zoo.NewG(rt, cfg)
				v, shape := g.Top()
				if _, perr := zoo.Project(v, nil); perr != nil {
					v, shape = int32(1), "scalar:int32"
				}
				vals = append(vals, v)
				kinds = append(kinds, shape)
				if rv := reflect.ValueOf(v); (rv.Kind() == reflect.Slice && rv.Type().Elem().Kind() != reflect.Uint8 || rv.Kind() == reflect.Map) && rv.Len() > 0 {
					conts = append(conts, v)
				}
				if rv := reflect.ValueOf(v); rv.Kind() == reflect.Ptr && rv.Elem().Kind() == reflect.Struct {
					ptrs = append(ptrs, v)
					classes = append(classes, rv.Elem().Type())
				} else if rv.Kind() == reflect.Struct && rv.Type() != zoo.TimeType {
					classes = append(classes, rv.Type())
				}
			}
		}
		// complete maps for the whole stream, extracted in one go
		tm, nm := hessian.ExtractTypeNameMap(vals)
		via := rapid.SampledFrom([]string{"Encoder/Decoder", "Serializer"}).Draw(rt, "api")
		descs := make([]string, len(vals))
		for i, v := range vals {
			descs[i] = kinds[i] + " " + zoo.Describe(v, 120)
		}
		c.set("api", via)
		c.set("stream", descs)
		r.Current(fmt.Sprintf("C06 %s %v", via, descs))
		// ---- write
		var buf bytes.Buffer
		offsets := make([]int, len(vals))
		var ser hessian.Serializer
		var enc *hessian.Encoder
		// half of the streams go to a destination that is an io.Writer and nothing else (a connection, a file, a
		// compressor), the others to the bytes.Buffer itself, which also offers WriteByte, WriteString, ReadFrom ...
		var dst io.Writer = &buf
		plainDst := rapid.Bool().Draw(rt, "destinationIsOnlyAWriter")
		if plainDst {
			dst = writeOnly{&buf}
		}
		if via == "Serializer" {
			ser = hessian.NewSerializer(tm, nm)
			if plainDst && rapid.Bool().Draw(rt, "oneShotFirst") {
				// ... after a one-shot call of the same instance, whose own destination is a buffer of the library's
				if _, err := ser.ToBytes(vals[0]); err != nil {
					failf(rt, c, "C06 Serializer: ToBytes(%s) failed: %v", descs[0], err)
				}
			}
		} else {
			enc = hessian.NewEncoder(dst, nm)
		}
		// in one case of five the stream is written by another implementation: the reference encoder, one
		// instance for the whole stream, with its own legal choices (type names and class definitions given once
		// per stream and referred to from later messages, variable-length lists, hoisted definitions ...). Each
		// message must then decode to what the Go encoder's own rendering of that value decodes to.
		byPeer := rapid.IntRange(0, 4).Draw(rt, "writtenByReferenceEncoder") == 0
		var peerWant []interface{}
		if byPeer {
			re := refcodec.NewEncoder(rapidChoices{rt}, refcodec.EncOptions{HoistAnywhere: rapid.Bool().Draw(rt, "hoist"), MaxPadding: 2, MaxChunks: 3})
			for i, v := range vals {
				a, perr := zoo.Project(v, nm)
				if perr != nil {
					rt.Skip("unrepresentable for the reference encoder")
				}
				var gb []byte
				var w interface{}
				var gerr error
				if pv, _ := guard(func() {
					if gb, gerr = hessian.ToBytes(v, copyNames(nm)); gerr == nil {
						w, gerr = hessian.ToObject(gb, tm)
					}
				}); pv != nil || gerr != nil {
					rt.Skip("canonical path fails (C01's subject)")
				}
				peerWant = append(peerWant, w)
				re.Top(a)
				if re.AmbiguousBinary > 0 {
					rt.Skip("'b' chunk ambiguity")
				}
				offsets[i] = re.W.Len()
			}
			buf.Write(re.W.Bytes())
		}
		for i, v := range vals {
			if byPeer {
				break
			}
			// now and then the writer first offers the stream a value the encoder refuses outright (nothing is
			// written): the stream then still consists of the values written, and they must read back as such
			if i > 0 && rapid.IntRange(0, 5).Draw(rt, "refusedInBetween") == 0 {
				bad := rapid.SampledFrom(c06Refused).Draw(rt, "refusedValue")
				before := buf.Len()
				var rerr error
				if pv, st := guard(func() {
					if enc != nil {
						rerr = enc.WriteObject(bad.v)
					} else {
						rerr = ser.Write(bad.v)
					}
				}); pv != nil {
					failf(rt, c, "C06 %s: write of %s between #%d and #%d panicked: %v [%s]", via, bad.name, i-1, i, pv, st)
				}
				if rerr == nil || buf.Len() != before {
					rt.Skip("the value was accepted, or part of it reached the stream (C13's subject)")
				}
				r.Label("refused value in between: " + bad.name)
			}
			var err error
			pv, st := guard(func() {
				switch {
				case enc != nil:
					err = enc.WriteObject(v)
				case i == 0:
					err = ser.WriteTo(dst, v)
				default:
					err = ser.Write(v)
				}
			})
			if pv != nil || err != nil {
				failf(rt, c, "C06 %s: write #%d (%s) failed: %v %v [%s]", via, i, descs[i], err, pv, st)
			}
			offsets[i] = buf.Len()
		}
		// ---- read back through the counting reader
		rd := &countingReader{b: buf.Bytes(), max: rapid.SampledFrom([]int{0, 0, 1, 2, 3, 7}).Draw(rt, "readerDeliversAtMost")}
		rd.eofWithData = rapid.IntRange(0, 3).Draw(rt, "lastReadReportsEOFWithItsData") == 0
		var dec *hessian.Decoder
		if ser == nil {
			dec = hessian.NewDecoder(rd, tm)
		}
		sess := vcmp.NewSession(nm)
		read := func(i int) (out interface{}, err error, pv interface{}, st string) {
			pv, st = guard(func() {
				switch {
				case dec != nil:
					out, err = dec.ReadObject()
				case i == 0:
					out, err = ser.ReadFrom(rd)
				default:
					out, err = ser.Read()
				}
			})
			return
		}
		for i, v := range vals {
			out, err, pv, st := read(i)
			if pv != nil || err != nil {
				failf(rt, c, "C06 %s: read #%d of %d (%s) failed: %v %v [%s]\n stream: %v", via, i, len(vals), descs[i], err, pv, st, descs)
			}
			if m := carrierScreen(out); m != "" {
				failf(rt, c, "C06 %s: read #%d handed back an internal carrier: %s (%T)\n stream: %v", via, i, m, out, descs)
			}
			if rd.pos != offsets[i] {
				failf(rt, c, "C06 %s: read #%d (%s) consumed up to offset %d, the value ends at %d\n stream: %v", via, i, descs[i], rd.pos, offsets[i], descs)
			}
			if byPeer {
				if cerr := vcmp.EqualValues(peerWant[i], out); cerr != nil {
					failf(rt, c, "C06 %s: value #%d of %d (%s) of a stream written by the reference encoder decodes differently from the Go encoder's own rendering: %v\n stream: %v\n bytes: %s", via, i, len(vals), descs[i], cerr, descs, hexClip(buf.Bytes(), 300))
				}
				continue
			}
			if cerr := sess.Equal(v, out); cerr != nil {
				failf(rt, c, "C06 %s: value #%d of %d (%s) came back different: %v\n stream: %v", via, i, len(vals), descs[i], cerr, descs)
			}
		}
		// ---- one more read: nil value, nothing consumed
		out, _, pv, st := read(len(vals))
		if pv != nil {
			failf(rt, c, "C06 %s: read past the last value panicked: %v [%s]", via, pv, st)
		}
		if out != nil && !isNilValue(out) {
			failf(rt, c, "C06 %s: read past the last value returned %T %v", via, out, out)
		}
		if rd.pos != len(rd.b) {
			failf(rt, c, "C06 %s: reader position %d after the end %d", via, rd.pos, len(rd.b))
		}
		// ---- a one-shot call on the same instance in the middle of a stream: wherever the library sends what is
		// written afterwards, the destination holds whole messages only - the first value, then nothing or the later one
		if !byPeer && len(vals) >= 2 && rapid.IntRange(0, 3).Draw(rt, "oneShotInBetween") == 0 {
			var w2 bytes.Buffer
			first, mid, last := vals[0], vals[1], vals[len(vals)-1]
			var oneShot []byte
			var e1, e2, e3 error
			pv, st := guard(func() {
				if via == "Serializer" {
					s2 := hessian.NewSerializer(tm, copyNames(nm))
					e1 = s2.WriteTo(&w2, first)
					oneShot, e2 = s2.ToBytes(mid)
					e3 = s2.Write(last)
				} else {
					en2 := hessian.NewEncoder(&w2, copyNames(nm))
					e1 = en2.WriteObject(first)
					oneShot, e2 = en2.Encode(mid)
					e3 = en2.WriteObject(last)
				}
			})
			if pv != nil || e1 != nil || e2 != nil {
				failf(rt, c, "C06 %s: stream write, one-shot call, stream write on one instance: %v %v %v %v [%s]", via, e1, e2, e3, pv, st)
			}
			if o, err := hessian.ToObject(oneShot, tm); err != nil {
				failf(rt, c, "C06 %s: the one-shot encoding made between two stream writes does not decode: %v", via, err)
			} else if cerr := vcmp.Equal(mid, o, nm); cerr != nil {
				failf(rt, c, "C06 %s: the one-shot encoding made between two stream writes decodes to another value: %v", via, cerr)
			}
			rd2 := &countingReader{b: w2.Bytes()}
			d2 := hessian.NewDecoder(rd2, tm)
			o1, err := d2.ReadObject()
			if err != nil {
				failf(rt, c, "C06 %s: after stream write, one-shot call, stream write the destination's first message does not decode: %v\n bytes %s", via, err, hexClip(w2.Bytes(), 200))
			}
			if cerr := vcmp.Equal(first, o1, nm); cerr != nil {
				failf(rt, c, "C06 %s: after stream write, one-shot call, stream write the destination's first message differs: %v", via, cerr)
			}
			if rd2.pos < len(rd2.b) {
				o2, err := d2.ReadObject()
				if err != nil {
					failf(rt, c, "C06 %s: stream write of %s, one-shot call with %s, stream write of %s on one instance: what the destination holds after the first message is not a message: %v\n bytes %s",
						via, descs[0], descs[1], descs[len(vals)-1], err, hexClip(w2.Bytes(), 300))
				}
				if cerr := vcmp.Equal(last, o2, nm); cerr != nil {
					failf(rt, c, "C06 %s: stream write, one-shot call, stream write on one instance: the destination's second message is not the value written last: %v\n bytes %s", via, cerr, hexClip(w2.Bytes(), 300))
				}
				if rd2.pos != len(rd2.b) {
					failf(rt, c, "C06 %s: stream write, one-shot call, stream write: %d octets after the second message", via, len(rd2.b)-rd2.pos)
				}
			}
			r.Label("one-shot call between two stream writes")
		}
		r.Eval()
		distinctTop := map[string]bool{}
		reused := false
		for _, k := range kinds {
			distinctTop[k] = true
			if k == "repeat-pointer" || k == "repeat-container" || k == "field-refers-to-earlier-value" || strings.HasPrefix(k, "same-class:") {
				reused = true
			}
		}
		if len(vals) >= 2 && (len(distinctTop) >= 2 || reused) {
			r.NonTrivial(av.Hash(via + fmt.Sprintf("%x", buf.Bytes())))
		}
		if reused {
			r.Label("reuses-class-or-ref")
		}
		for i, k := range kinds {
			if strings.HasPrefix(k, "message-of-") && i < len(kinds)-1 {
				r.Label("message of hundreds or thousands of containers followed by further values")
			}
			if strings.HasPrefix(k, "long-typed-list") && i < len(kinds)-1 {
				r.Label("typed list of more than 64 elements followed by further values")
				break
			}
		}
		r.Label("api:" + via)
		if byPeer {
			r.Label("stream written by the reference encoder")
		}
		if plainDst {
			r.Label("destination is an io.Writer and nothing else")
		}
		if rd.eofWithData {
			r.Label("the reader's last Read reports io.EOF together with its data")
		}
		if rd.max > 0 {
			r.Label(fmt.Sprintf("reader delivers at most %d octets per Read", rd.max))
		}
		r.Label("len:" + bucket(len(vals)))
		r.Sample(func() interface{} {
			return map[string]interface{}{"api": via, "values": descs, "end_offsets": offsets, "octets": buf.Len()}
		})
	})
}

func isNilValue(v interface{}) bool {
	rv := reflect.ValueOf(v)
	switch rv.Kind() {
	case reflect.Ptr, reflect.Map, reflect.Slice, reflect.Interface:
		return rv.IsNil()
	}
	return false
}
