package props

import (
	"bytes"
	"fmt"
	"reflect"
	"strings"
	"testing"
	"time"
	"unicode"
	"unicode/utf8"

	hessian "github.com/vogo/gohessian"
	"pgregory.net/rapid"

	"verif/harness/av"
	"verif/harness/rec"
	"verif/harness/refcodec"
	"verif/harness/vcmp"
	"verif/harness/zoo"
)

var c05TM map[string]reflect.Type
var c05NM map[string]string

func init() {
	all := []interface{}{&zoo.Embedded{}, &zoo.SkewOld{}, &zoo.F3{}, &zoo.F4{}, &zoo.F5{}, &zoo.F9{}, &zoo.NonASCII{}, &zoo.CaseTwins{}, &zoo.Empty{}, &zoo.NonASCIIFirst{}, &zoo.Inner{}, []int32{1}, []string{"a"}, zoo.NMap{"k": &zoo.CN1{}}, zoo.PlainMap{"k": 1}}
	for _, kt := range zoo.KTypes {
		all = append(all, reflect.New(kt).Interface())
	}
	c05TM, c05NM = hessian.ExtractTypeNameMap(all)
	c05TM["Wide150"] = c05Wide
	c05TM["skew.T"] = reflect.TypeOf(zoo.SkewOld{})
}

// a wire rendering of one struct instance: which Go fields are sent, in which
// order, with which extra (unknown) fields in between, and how names are cased
type c05Plan struct {
	order  []int   // indices of Go fields, in wire order (dropped ones absent)
	extras [][]int // extras[i] = kinds of extra fields inserted before wire position i (len = len(order)+1)
	upper  []bool  // per wire field of order: first letter upper-case on the wire
}

func (p c05Plan) String() string {
	return fmt.Sprintf("order=%v extras=%v upper=%v", p.order, p.extras, p.upper)
}

// values an unknown wire field may carry: each decodable on its own with c05TM
const c05ExtraKinds = 38

// c05AliasKind: the unknown field holds the very object a later known field points to (that field then
// arrives as a reference into the value that was skipped)
const c05AliasKind = 33

func c05Extra(kind int) *av.V {
	switch kind % c05ExtraKinds {
	case 12:
		return av.DoubleV(91) // the compact forms of a double: one octet, two, four
	case 13:
		return av.DoubleV(-300)
	case 14:
		return av.DoubleV(0)
	case 15:
		return av.DoubleV(1)
	case 16:
		return av.DoubleV(12.25)
	case 17:
		return av.StringV("größe 日本 𝔲nknown") // characters of two, three and four octets
	case 18:
		return av.StringV(strings.Repeat("é日", 520)) // beyond the short length forms
	case 19:
		return av.StringV("")
	case 20:
		return av.IntV(5)
	case 21:
		return av.IntV(1000)
	case 22:
		return av.IntV(100000)
	case 23:
		return av.IntV(1 << 30)
	case 24:
		return av.LongV(3)
	case 25:
		return av.LongV(-1000)
	case 26:
		return av.LongV(200000)
	case 27:
		return av.LongV(1<<31 - 1)
	case 28:
		return av.BoolV(false)
	case 29:
		return av.BinaryV(bytes.Repeat([]byte{0xc3, 0x51}, 300))
	case 30:
		return av.DateV(1500000060000) // a whole minute: may travel in the compact form
	case 31:
		return av.DateV(-1)
	case 32:
		return &av.V{K: av.Map, Typed: true, Type: "PlainMap", Elems: []*av.V{av.StringV("k"), av.IntV(5)}}
	case c05AliasKind:
		return av.IntV(-77) // (when no later field holds an object)
	case 34:
		// what the Go side has never heard of: the peer's class got a field of a new class (§5 #45) ...
		return &av.V{K: av.Object, Type: "com.peer.Audit", Fields: []string{"who", "when", "n"}, Elems: []*av.V{av.StringV("someone"), av.DateV(1500000000123), av.LongV(1 << 40)}}
	case 35:
		// ... whose instances nest, refer to themselves and hold a registered class
		inner := &av.V{K: av.Object, Type: "com.peer.Tag", Fields: []string{"label"}, Elems: []*av.V{av.StringV("t")}}
		outer := &av.V{K: av.Object, Type: "com.peer.Audit2", Fields: []string{"tag", "self", "known", "tagAgain"}}
		outer.Elems = []*av.V{inner, outer, {K: av.Object, Type: "Inner", Fields: []string{"a", "s"}, Elems: []*av.V{av.IntV(3), av.StringV("in")}}, inner}
		return outer
	case 36:
		// ... or of a list type nobody registered, holding instances of the new class
		el := func(l string) *av.V {
			return &av.V{K: av.Object, Type: "com.peer.Tag", Fields: []string{"label"}, Elems: []*av.V{av.StringV(l)}}
		}
		return &av.V{K: av.List, Typed: true, Type: "[com.peer.Tag", Elems: []*av.V{el("a"), el("b"), av.NullV()}}
	case 37:
		// ... or of a map type nobody registered
		return &av.V{K: av.Map, Typed: true, Type: "com.peer.Registry", Elems: []*av.V{av.StringV("k"), av.IntV(5), av.IntV(7), {K: av.List, Typed: true, Type: "[com.peer.Unknown", Elems: []*av.V{av.IntV(1)}}}}
	}
	switch kind % 12 {
	case 0:
		return av.IntV(77)
	case 1:
		return av.StringV("unknown-field-value")
	case 2:
		return av.NullV()
	case 3:
		return av.LongV(1 << 40)
	case 4:
		return av.DoubleV(2.5)
	case 5:
		return av.BinaryV([]byte{9, 8, 7})
	case 6:
		return av.DateV(1500000000123)
	case 7:
		return &av.V{K: av.List, Elems: []*av.V{av.IntV(1), av.StringV("x"), av.NullV()}}
	case 8:
		return &av.V{K: av.Map, Elems: []*av.V{av.StringV("k"), av.IntV(5), av.IntV(6), av.BoolV(true)}}
	case 9:
		return &av.V{K: av.Object, Type: "Inner", Fields: []string{"a", "s"}, Elems: []*av.V{av.IntV(-5), av.StringV("nested-unknown")}}
	case 10:
		return av.BoolV(true)
	default:
		return &av.V{K: av.List, Typed: true, Type: "[int32", Elems: []*av.V{av.IntV(4), av.IntV(5)}}
	}
}

// c05Render builds the abstract object for v under plan and the Go value the
// decoder must produce (dropped fields zero).
func c05Render(v reflect.Value, plan c05Plan) (*av.V, interface{}) {
	full, _ := zoo.Project(v.Addr().Interface(), c05NM)
	obj := &av.V{K: av.Object, Type: full.Type}
	exp := reflect.New(v.Type())
	x := 0
	// names of fields promoted from embedded structs: Java lists the fields of a superclass in the definition of
	// the subclass, Go keeps them one level down - a wire field of such a name has no counterpart in the struct itself
	var promoted []string
	for i := 0; i < v.NumField(); i++ {
		if sf := v.Type().Field(i); sf.Anonymous && sf.Type.Kind() == reflect.Struct {
			for j := 0; j < sf.Type.NumField(); j++ {
				promoted = append(promoted, strings.ToLower(sf.Type.Field(j).Name[:1])+sf.Type.Field(j).Name[1:])
			}
		}
	}
	addExtras := func(pos int) {
		if pos < len(plan.extras) {
			for _, k := range plan.extras[pos] {
				x++
				name := fmt.Sprintf([]string{"zzUnknown%d", "this$%d", "größe%d", "未知%d", "val$x%d", "𝔲nknown%d"}[(x+k)%6], x)
				if x <= len(promoted) {
					name = promoted[x-1]
				} else if pos > 0 && (x+k)%3 == 0 {
					// the backing-field spelling of the known field just sent: a field of its own, without counterpart
					name = strings.Repeat("_", 1+x%2) + full.Fields[plan.order[pos-1]]
				}
				val := c05Extra(k)
				if k%c05ExtraKinds == c05AliasKind {
					for _, fi := range plan.order[pos:] {
						if full.Elems[fi].K == av.Object {
							val = full.Elems[fi]
							break
						}
					}
				}
				obj.Fields = append(obj.Fields, name)
				obj.Elems = append(obj.Elems, val)
			}
		}
	}
	for w, fi := range plan.order {
		addExtras(w)
		name := full.Fields[fi]
		if w < len(plan.upper) && plan.upper[w] {
			// "first letter case-insensitively": the first letter, of whatever alphabet
			fr, size := utf8.DecodeRuneInString(name)
			name = string(unicode.ToUpper(fr)) + name[size:]
		}
		obj.Fields = append(obj.Fields, name)
		obj.Elems = append(obj.Elems, full.Elems[fi])
		exp.Elem().Field(fi).Set(v.Field(fi))
	}
	addExtras(len(plan.order))
	return obj, exp.Interface()
}

// c05Check encodes the rendered objects (one or several instances in a list)
// with the reference encoder and checks what the Go decoder makes of them.
func c05Check(objs []*av.V, exps []interface{}, opt refcodec.EncOptions, ch refcodec.Choices) ([]byte, string, string) {
	return c05CheckWith(nil, objs, exps, opt, ch)
}

// c05CheckWith decodes with dec when given (a decoder that has read other messages before).
func c05CheckWith(dec *hessian.Decoder, objs []*av.V, exps []interface{}, opt refcodec.EncOptions, ch refcodec.Choices) ([]byte, string, string) {
	var root *av.V
	if len(objs) == 1 {
		root = objs[0]
	} else {
		root = &av.V{K: av.List, Elems: objs}
	}
	e := refcodec.NewEncoder(ch, opt)
	e.Top(root)
	b := e.W.Bytes()
	// (a 'b' chunk after class #2 in a []byte field is only readable by the typed reader)
	if _, _, derr := refcodec.Decode(b); derr != nil && e.AmbiguousBinary == 0 {
		return b, "", fmt.Sprintf("reference decoder rejects the reference encoding: %v", derr)
	}
	if dec == nil && len(b) < 4000 {
		// the same message from a source that delivers one octet per Read and reports the end together with the
		// last one: whatever is skipped or read in one go must not depend on how the octets arrive
		var out interface{}
		var err error
		if pv, st := guard(func() {
			out, err = hessian.NewDecoder(&countingReader{b: b, max: 1, eofWithData: true}, c05TM).ReadObject()
		}); pv != nil || err != nil {
			return b, fmt.Sprintf("decode from a reader that delivers one octet at a time failed: %v %v [%s]", err, pv, st), ""
		}
		if msg := c05Compare(objs, exps, out); msg != "" {
			return b, "from a reader that delivers one octet at a time: " + msg, ""
		}
	}
	var out interface{}
	var err error
	if pv, st := guard(func() {
		if dec != nil {
			out, err = dec.Decode(b)
		} else {
			out, err = hessian.ToObject(b, c05TM)
		}
	}); pv != nil || err != nil {
		return b, fmt.Sprintf("decode failed: %v %v [%s]", err, pv, st), ""
	}
	return b, c05Compare(objs, exps, out), ""
}

func c05Compare(objs []*av.V, exps []interface{}, out interface{}) string {
	if len(objs) == 1 {
		if cerr := vcmp.Equal(exps[0], out, c05NM); cerr != nil {
			return "fields not bound by name: " + cerr.Error()
		}
		return ""
	}
	l, ok := out.([]interface{})
	if !ok || len(l) != len(exps) {
		return fmt.Sprintf("list of %d instances came back as %T", len(exps), out)
	}
	for i := range exps {
		if cerr := vcmp.Equal(exps[i], l[i], c05NM); cerr != nil {
			return fmt.Sprintf("instance #%d built from the wrong definition or fields: %v", i, cerr)
		}
	}
	return ""
}

// compactDates takes the compact alternative wherever a date has one.
type compactDates struct{}

func (compactDates) Choose(n int, what string) int {
	if what == "date-form" {
		return 1
	}
	return 0
}

// c05Wide: a class of more fields than any preallocation limit of the decoder (a wide bean).
var c05Wide = func() reflect.Type {
	var fs []reflect.StructField
	for i := 0; i < 300; i++ {
		t := reflect.TypeOf(int32(0))
		if i%3 == 1 {
			t = reflect.TypeOf("")
		}
		fs = append(fs, reflect.StructField{Name: fmt.Sprintf("F%03d", i), Type: t})
	}
	return reflect.StructOf(fs)
}()

// c05WideCase renders an instance of the wide class with its first nf fields (in declaration order or reversed)
// and the value the decoder must produce.
func c05WideCase(nf int, reversed bool, seed int) (*av.V, interface{}) {
	obj := &av.V{K: av.Object, Type: "Wide150"}
	exp := reflect.New(c05Wide)
	for w := 0; w < nf; w++ {
		i := w
		if reversed {
			i = nf - 1 - w
		}
		obj.Fields = append(obj.Fields, fmt.Sprintf("f%03d", i))
		if i%3 == 1 {
			sv := fmt.Sprintf("s%d-%d", i, seed)
			obj.Elems = append(obj.Elems, av.StringV(sv))
			exp.Elem().Field(i).SetString(sv)
		} else {
			obj.Elems = append(obj.Elems, av.IntV(int32(i*7+seed)))
			exp.Elem().Field(i).SetInt(int64(i*7 + seed))
		}
	}
	return obj, exp.Interface()
}

func permutations(n int) [][]int {
	var out [][]int
	a := make([]int, n)
	for i := range a {
		a[i] = i
	}
	var rec func(k int)
	rec = func(k int) {
		if k == n {
			out = append(out, append([]int{}, a...))
			return
		}
		for i := k; i < n; i++ {
			a[k], a[i] = a[i], a[k]
			rec(k + 1)
			a[k], a[i] = a[i], a[k]
		}
	}
	rec(0)
	return out
}

func c05Values() []reflect.Value {
	in := &zoo.Inner{A: 11, S: "in"}
	vals := []interface{}{
		&zoo.F3{A: 7, B: "bee", C: 2.5},
		&zoo.F4{A: 1 << 40, B: []int32{1, 2, 3}, C: &zoo.Inner{A: 3, S: "c"}, D: true},
		&zoo.F5{A: -1, B: "b", C: []string{"x", "", "y"}, D: zoo.Inner{A: 9, S: "d"}, E: []byte{1, 2}},
		&zoo.Embedded{Inner: zoo.Inner{A: 4, S: "emb"}, X: 5, Y: "why"}, // wire fields named like the promoted ones are unknown
		&zoo.Empty{}, // no Go field at all: every wire field is one without counterpart
		&zoo.NonASCIIFirst{Ärger: 3, Étage: "é", Ωmega: []*zoo.Inner{in}, Élan: in, Z: 9},
		&zoo.CaseTwins{URL: "upper", Url: "lower", HitsID: 7, HitsId: 1 << 40, Ab: true, AB: []int32{1, 2}},
		&zoo.NonASCII{Größe: 5, Naïve: "ï", Zażółć: []string{"ż", "ó"}, Name日本: &zoo.Inner{A: 1, S: "日本"}},
		&zoo.F9{A: 300, B: "nine", C: map[string]int32{"k": 1}, D: time.UnixMilli(1500000000123), E: 65535, F: []*zoo.Inner{in, nil, in}, G: 0.5, H: -9, I: []interface{}{int32(1), "s"}},
	}
	out := make([]reflect.Value, len(vals))
	for i, v := range vals {
		out[i] = reflect.ValueOf(v).Elem()
	}
	return out
}

func TestC05(t *testing.T) {
	r := rec.For("C05")
	shard, nshards := shardInfo()
	vals := c05Values()
	n := 0
	mine := func() bool { n++; return n%nshards == shard }
	var padSame bool
	run := func(v reflect.Value, plan c05Plan, k int, long bool, what string) {
		obj, exp := c05Render(v, plan)
		opt := refcodec.EncOptions{PadExact: k, ForceLongObject: long, PadSame: padSame}
		var ch refcodec.Choices = refcodec.Canonical{}
		for _, ex := range plan.extras {
			for _, kind := range ex {
				if kind == 30 {
					// the unknown field holds a whole-minute instant in the compact form
					opt.CompactDate, ch = true, compactDates{}
				}
			}
		}
		b, failure, harness := c05Check([]*av.V{obj}, []interface{}{exp}, opt, ch)
		if harness != "" {
			harnessBug(t, "C05", "%s (%s %v)", harness, v.Type().Name(), plan)
		}
		r.Eval()
		declOrder := len(plan.order) == v.NumField()
		for i, fi := range plan.order {
			if fi != i {
				declOrder = false
			}
		}
		if !declOrder || k >= 2 || len(plan.extras) > 0 {
			r.NonTrivial(av.Hash(fmt.Sprintf("%s/%v/%d/%v", v.Type().Name(), plan, k, long)))
		}
		if n%97 == 0 {
			r.Sample(func() interface{} {
				return map[string]interface{}{"type": v.Type().Name(), "plan": plan.String(), "class_index": k, "long_form": long, "bytes": hexClip(b, 80), "what": what}
			})
		}
		if failure != "" {
			directFail(t, "C05", map[string]interface{}{"type": v.Type().Name(), "plan": plan.String(), "class_index": fmt.Sprint(k), "long_form": long, "bytes": hexClip(b, 600)},
				"C05 %s (%s), class index %d, long form %v, wire layout %v: %s\n bytes: %s", v.Type().Name(), what, k, long, plan, failure, hexClip(b, 300))
		}
	}
	indices := []int{0, 1, 2, 15, 16, 17, 40, 255, 256, 300}
	if rec.Thorough() {
		indices = nil
		for k := 0; k <= 40; k++ {
			indices = append(indices, k)
		}
		indices = append(indices, 127, 128, 255, 256, 257, 300, 511, 512)
	}
	for _, v := range vals {
		nf := v.NumField()
		// (1) every permutation of the fields (<= 5 fields) x class index x instance form
		if nf <= 5 {
			for _, perm := range permutations(nf) {
				for _, k := range indices {
					for _, long := range []bool{false, true} {
						if !long && k >= 16 {
							continue
						}
						if mine() {
							run(v, c05Plan{order: perm}, k, long, "permutation")
						}
					}
				}
			}
			r.Label("all-permutations:" + v.Type().Name())
		}
		// (2) every subset of the fields dropped (declaration order kept), <= 2^9
		for mask := 0; mask < 1<<uint(nf); mask++ {
			var order []int
			for i := 0; i < nf; i++ {
				if mask&(1<<uint(i)) != 0 {
					order = append(order, i)
				}
			}
			if mine() {
				run(v, c05Plan{order: order}, mask%3, mask%2 == 0, "subset")
			}
		}
		// (3) one unknown field of every kind at every position, and upper-case names
		full := make([]int, nf)
		for i := range full {
			full[i] = i
		}
		for pos := 0; pos <= nf; pos++ {
			for kind := 0; kind < c05ExtraKinds; kind++ {
				ex := make([][]int, nf+1)
				ex[pos] = []int{kind}
				if mine() {
					run(v, c05Plan{order: full, extras: ex}, (pos+kind)%4, kind%2 == 0, "unknown-field")
				}
			}
		}
		for mask := 0; mask < 1<<uint(nf) && mask < 64; mask++ {
			up := make([]bool, nf)
			for i := range up {
				up[i] = mask&(1<<uint(i)) != 0
			}
			if mine() {
				run(v, c05Plan{order: full, upper: up}, 0, false, "upper-case-names")
			}
		}
	}
	// (4) the same definition sent several times in front of the class (every copy takes an index), and
	// hundreds of definitions in a row in front of one value
	for vi, v := range vals {
		full := make([]int, v.NumField())
		for i := range full {
			full[i] = i
		}
		padSame = true
		for _, k := range []int{1, 2, 3, 15, 16, 40} {
			if mine() {
				run(v, c05Plan{order: full}, k, k >= 16 || k%2 == 0, "repeated-definition")
			}
		}
		padSame = false
		if vi < 2 {
			for _, k := range []int{511, 512, 600, 1500} {
				if mine() {
					run(v, c05Plan{order: full}, k, true, "hundreds-of-definitions-in-a-row")
				}
			}
		}
	}
	r.Label("repeated definitions; 511..1500 definitions in a row")
	// (5) a class of up to 300 fields (the field count crosses every one-octet boundary), its definition at the start or after other classes
	for _, nf := range []int{1, 63, 64, 65, 66, 100, 127, 128, 129, 150, 255, 256, 257, 300} {
		for _, reversed := range []bool{false, true} {
			for _, k := range []int{0, 3} {
				if !mine() {
					continue
				}
				obj, exp := c05WideCase(nf, reversed, nf+k)
				obj2, exp2 := c05WideCase(nf, reversed, 1000+nf)
				b, failure, harness := c05Check([]*av.V{obj, obj2}, []interface{}{exp, exp2}, refcodec.EncOptions{PadExact: k}, refcodec.Canonical{})
				if harness != "" {
					harnessBug(t, "C05", "%s (wide class, %d fields)", harness, nf)
				}
				r.Eval()
				r.NonTrivial(av.Hash(fmt.Sprintf("wide/%d/%v/%d", nf, reversed, k)))
				if failure != "" {
					directFail(t, "C05", map[string]interface{}{"type": "Wide150", "fields_sent": nf, "reversed": reversed, "class_index": fmt.Sprint(k), "bytes": hexClip(b, 600)},
						"C05 two instances of a class whose definition lists %d fields (reversed order %v), class index %d: %s\n bytes: %s", nf, reversed, k, failure, hexClip(b, 300))
				}
			}
		}
	}
	r.Label("class definitions of 1..300 fields")
	// ---------------- random: a newer version of a class, sent by the Go encoder itself, read as the older one
	skewTM := map[string]reflect.Type{"skew.T": reflect.TypeOf(zoo.SkewOld{}), "Inner": reflect.TypeOf(zoo.Inner{})}
	skewNames := map[string]string{"SkewNew": "skew.T"}
	for k, v := range c05NM {
		skewNames[k] = v
	}
	for k, v := range c05TM {
		if _, ok := skewTM[k]; !ok {
			skewTM[k] = v
		}
	}
	skewCfg := zoo.DefaultCfg()
	skewCfg.MaxBig, skewCfg.Budget, skewCfg.NoBigStrings = 70, 200, true
	check(t, "C05", func(rt *rapid.T, c *caseInfo) {
		g := zoo.NewG(rt, skewCfg)
		nv := g.Value(reflect.TypeOf(zoo.SkewNew{})).Interface().(zoo.SkewNew)
		switch rapid.IntRange(0, 3).Draw(rt, "x2") {
		case 0:
			nv.X2 = time.Unix(1600000001, 0) // a whole second
		case 1:
			nv.X2 = time.Unix(1600000020, 0) // a whole minute
		}
		if rapid.Bool().Draw(rt, "x3multi") {
			nv.X3 = nv.X3 + "é日𝔲" + nv.X3
		}
		switch rapid.IntRange(0, 3).Draw(rt, "x1") {
		case 0:
			nv.X1 = float64(rapid.IntRange(-130, 130).Draw(rt, "x1small"))
		case 1:
			nv.X1 = float64(rapid.IntRange(-33000, 33000).Draw(rt, "x1short"))
		case 2:
			nv.X1 = float64(rapid.IntRange(-1000, 1000).Draw(rt, "x1milli")) / 8
		}
		alias := rapid.IntRange(0, 2).Draw(rt, "alias")
		if alias == 1 && nv.X4 != nil {
			nv.D = nv.X4 // the known field refers into the value of an unknown one
		}
		if alias == 2 && len(nv.X11) > 0 {
			nv.F = nv.X11
		}
		if _, perr := zoo.Project(&nv, nil); perr != nil {
			rt.Skip("unrepresentable")
		}
		if rapid.Bool().Draw(rt, "beyond2^63") {
			// unsigned values of 2^63 and more travel as negative longs
			nv.U, nv.X14, nv.V = nv.U|1<<63, nv.X14|1<<63, nv.V|1<<63
		}
		exp := &zoo.SkewOld{A: nv.A, B: nv.B, C: nv.C, D: nv.D, E: nv.E, F: nv.F, G: nv.G, U: nv.U, V: nv.V}
		second := rapid.Bool().Draw(rt, "secondInstance")
		var msg interface{} = &nv
		if second {
			msg = []interface{}{&nv, &zoo.SkewNew{A: 1, X3: "日", B: "b", G: "g", X1: 7, X2: time.Unix(1600000001, 0)}}
		}
		desc := zoo.Describe(msg, 300)
		c.set("value", desc)
		r.Current("C05 newer version of a class " + desc)
		var b []byte
		var err error
		var out interface{}
		if pv, st := guard(func() { b, err = hessian.ToBytes(msg, copyNames(skewNames)) }); pv != nil || err != nil {
			failf(rt, c, "C05 version skew: encoding failed: %v %v [%s]", err, pv, st)
		}
		if pv, st := guard(func() { out, err = hessian.ToObject(b, skewTM) }); pv != nil || err != nil {
			c.set("bytes", hexClip(b, 1000))
			failf(rt, c, "C05 a message of the newer version of a class (13 more fields, between the known ones) does not decode as the older version: %v %v [%s]\n value %s\n bytes %s", err, pv, st, desc, hexClip(b, 300))
		}
		r.Eval()
		r.NonTrivial(av.Hash(fmt.Sprintf("skew/%x", b)))
		r.Label(fmt.Sprintf("version-skew:alias=%d", alias))
		r.Sample(func() interface{} {
			return map[string]interface{}{"what": "version skew through the Go encoder", "value": desc, "bytes": hexClip(b, 80)}
		})
		got := out
		if second {
			l, ok := out.([]interface{})
			if !ok || len(l) != 2 {
				failf(rt, c, "C05 version skew: two instances came back as %T", out)
			}
			got = l[0]
			if cerr := vcmp.Equal(&zoo.SkewOld{A: 1, B: "b", G: "g"}, l[1], skewNames); cerr != nil {
				failf(rt, c, "C05 version skew: second instance: %v\n bytes %s", cerr, hexClip(b, 300))
			}
		}
		if cerr := vcmp.Equal(exp, got, skewNames); cerr != nil {
			c.set("bytes", hexClip(b, 1000))
			failf(rt, c, "C05 the fields the older version knows are not bound by name when a newer version is sent: %v\n value %s\n bytes %s", cerr, desc, hexClip(b, 300))
		}
	})
	// ---------------- random: several instances of several classes in one stream
	cfg := zoo.DefaultCfg()
	cfg.MaxBig, cfg.Budget, cfg.NoBigStrings, cfg.TimeMillis = 10, 80, true, true
	check(t, "C05", func(rt *rapid.T, c *caseInfo) {
		// one decoder reads two messages whose definitions of the same classes differ
		// (two peers, or a newer and an older version of a class)
		shared := hessian.NewDecoder(nil, c05TM)
		nmsg := rapid.IntRange(1, 2).Draw(rt, "messages")
		for msg := 0; msg < nmsg; msg++ {
			ninst := rapid.IntRange(1, 5).Draw(rt, "instances")
			var objs []*av.V
			var exps []interface{}
			var descs []string
			plans := map[string]c05Plan{} // one definition per class on a stream ...
			// ... except in one message of three, where every instance may come with a definition of its own: the
			// same class defined again with other fields or another order (two writers behind one connection, a
			// class reloaded on the peer). Each instance is built from exactly the definition its tag denotes.
			redefine := rapid.IntRange(0, 2).Draw(rt, "classesDefinedAgain") == 0
			for i := 0; i < ninst; i++ {
				typ := zoo.FTypes[rapid.IntRange(0, len(zoo.FTypes)-1).Draw(rt, "type")]
				g := zoo.NewG(rt, cfg)
				v := reflect.New(typ).Elem()
				v.Set(g.Value(typ))
				if _, perr := zoo.Project(v.Addr().Interface(), nil); perr != nil {
					rt.Skip("unrepresentable")
				}
				plan, ok := plans[typ.Name()]
				if ok && redefine && rapid.Bool().Draw(rt, "definedAgain") {
					ok = false
					r.Label("random:class-defined-again-on-the-stream")
				}
				if !ok {
					nf := typ.NumField()
					perm := rapid.Permutation(seq(nf)).Draw(rt, "perm")
					keep := rapid.IntRange(0, nf).Draw(rt, "keep")
					if rapid.Bool().Draw(rt, "keepAll") {
						keep = nf
					}
					plan.order = perm[:keep]
					plan.extras = make([][]int, keep+1)
					for e := rapid.IntRange(0, 3).Draw(rt, "nExtras"); e > 0; e-- {
						pos := rapid.IntRange(0, keep).Draw(rt, "extraPos")
						plan.extras[pos] = append(plan.extras[pos], rapid.IntRange(0, c05ExtraKinds-1).Draw(rt, "extraKind"))
					}
					plan.upper = make([]bool, keep)
					for j := range plan.upper {
						plan.upper[j] = rapid.IntRange(0, 3).Draw(rt, "upper") == 0
					}
					plans[typ.Name()] = plan
				}
				obj, exp := c05Render(v, plan)
				objs = append(objs, obj)
				exps = append(exps, exp)
				descs = append(descs, fmt.Sprintf("%s %v", typ.Name(), plan))
			}
			k := rapid.IntRange(0, 40).Draw(rt, "classIndexOffset")
			long := rapid.Bool().Draw(rt, "longForm")
			c.set("instances", descs)
			c.set("class_index_offset", k)
			r.Current(fmt.Sprintf("C05 random %v k=%d long=%v", descs, k, long))
			opt := refcodec.EncOptions{PadExact: k, ForceLongObject: long, HoistAnywhere: rapid.Bool().Draw(rt, "hoist")}
			var useDec *hessian.Decoder
			if nmsg == 2 {
				useDec = shared
				descs = append(descs, fmt.Sprintf("message %d of 2 on one decoder", msg+1))
			}
			b, failure, harness := c05CheckWith(useDec, objs, exps, opt, rapidChoices{rt})
			if harness != "" {
				harnessBug(rt, "C05", "%s (%v)", harness, descs)
			}
			r.Eval()
			r.NonTrivial(av.Hash(fmt.Sprintf("%x", b)))
			r.Label(fmt.Sprintf("random:instances=%d", ninst))
			r.Sample(func() interface{} {
				return map[string]interface{}{"instances": descs, "class_index_offset": k, "long_form": long, "bytes": hexClip(b, 80), "what": "random"}
			})
			if failure != "" {
				c.set("bytes", hexClip(b, 1000))
				failf(rt, c, "C05 %d instance(s) %v, class index offset %d, long form %v: %s\n bytes: %s", ninst, descs, k, long, failure, hexClip(b, 300))
			}
		}
	})
}

func seq(n int) []int {
	a := make([]int, n)
	for i := range a {
		a[i] = i
	}
	return a
}
