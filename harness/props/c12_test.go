package props

import (
	"bytes"
	"fmt"
	"reflect"
	"runtime"
	"sync"
	"sync/atomic"
	"testing"
	"time"
	"unsafe"

	hessian "github.com/vogo/gohessian"
	"pgregory.net/rapid"

	"verif/harness/av"
	"verif/harness/rec"
	"verif/harness/refcodec"
	"verif/harness/vcmp"
	"verif/harness/zoo"
)

// sameStream: two encodings of one value denote the same stream; byte-for-byte
// unless the value holds a map with >= 2 entries (Go's map order is free).
func sameStream(a, b []byte) string {
	if bytes.Equal(a, b) {
		return ""
	}
	va, _, ea := refcodec.Decode(a)
	vb, _, eb := refcodec.Decode(b)
	if ea != nil || eb != nil {
		return fmt.Sprintf("bytes differ and do not both parse (%v / %v)", ea, eb)
	}
	multi := false
	av.Walk(va, func(x *av.V) {
		if x.K == av.Map && len(x.Elems) > 2 {
			multi = true
		}
	})
	if !multi {
		return fmt.Sprintf("bytes differ (%d vs %d octets, first difference at %d) and no map order can explain it", len(a), len(b), firstDiffB(a, b))
	}
	if av.Canon(va, av.Options{}) != av.Canon(vb, av.Options{}) {
		return "streams denote different values"
	}
	return ""
}

func firstDiffB(a, b []byte) int {
	i := 0
	for i < len(a) && i < len(b) && a[i] == b[i] {
		i++
	}
	return i
}

type c12Value struct {
	v     interface{}
	desc  string
	bytes []byte
	eerr  string
	obj   interface{}
	derr  string
}

func errStr(err error) string {
	if err == nil {
		return ""
	}
	return "error"
}

func TestC12(t *testing.T) {
	r := rec.For("C12")
	shard, _ := shardInfo()
	if rec.Thorough() {
		runtime.GOMAXPROCS([]int{16, 1, 2, 4}[shard%4])
	}
	// ---------------- cold error sites: the very first thing this process does with the library is to hit the
	// refusing paths of encode and decode from several goroutines at the same moment (whatever the library
	// caches or formats lazily the first time an error is built is invisible once warm)
	c12ColdErrors(t, r)
	if t.Failed() {
		return
	}
	cfg := zoo.DefaultCfg()
	cfg.MaxBig = 40
	cfg.Budget = 300
	cfg.NoBigStrings = true
	check(t, "C12", func(rt *rapid.T, c *caseInfo) {
		// ---- shared, read-only inputs and complete maps
		nv := rapid.IntRange(2, 6).Draw(rt, "nvalues")
		vals := make([]*c12Value, 0, nv)
		tm := map[string]reflect.Type{}
		nm := map[string]string{}
		for i := 0; i < nv; i++ {
			g := zoo.NewG(rt, cfg)
			v, shape := g.Top()
			if _, perr := zoo.Project(v, nil); perr != nil {
				continue
			}
			t1, n1 := hessian.ExtractTypeNameMap(v)
			for k, x := range t1 {
				if _, ok := tm[k]; !ok {
					tm[k] = x
				}
			}
			for k, x := range n1 {
				if _, ok := nm[k]; !ok {
					nm[k] = x
				}
			}
			vals = append(vals, &c12Value{v: v, desc: shape + " " + zoo.Describe(v, 160)})
		}
		// values that take the chunked string / binary paths and the growing-list path
		if rapid.IntRange(0, 2).Draw(rt, "withLarge") == 0 {
			n := rapid.IntRange(2049, 5000).Draw(rt, "largeLen")
			big := make([]int64, 1100)
			for i := range big {
				big[i] = int64(i) << 20
			}
			for _, v := range []interface{}{
				&zoo.StrCarrier{S: mkString(rapid.IntRange(0, 4).Draw(rt, "largeClass"), n, 0, 0, uint64(n)), L: []string{mkString(0, n+1, 0, 0, 7)}},
				&zoo.BinCarrier{B: mkBytes(2*n, uint64(n)), L: [][]byte{mkBytes(n+4096, 5)}},
				&zoo.SlI64{L: big},
			} {
				t1, n1 := hessian.ExtractTypeNameMap(v)
				for k, x := range t1 {
					if _, ok := tm[k]; !ok {
						tm[k] = x
					}
				}
				for k, x := range n1 {
					if _, ok := nm[k]; !ok {
						nm[k] = x
					}
				}
				vals = append(vals, &c12Value{v: v, desc: fmt.Sprintf("large %T (%d)", v, n)})
			}
		}
		if len(vals) < 2 {
			rt.Skip("too few values")
		}
		// ---- sequential reference results with the shared maps
		for _, x := range vals {
			s := hessian.NewSerializer(tm, nm)
			var err error
			if pv, _ := guard(func() { x.bytes, err = s.ToBytes(x.v) }); pv != nil {
				rt.Skip("sequential encode panics (C01's subject)")
			}
			x.eerr = errStr(err)
			if err == nil {
				if pv, _ := guard(func() { x.obj, err = s.ToObject(x.bytes) }); pv != nil {
					rt.Skip("sequential decode panics (C01's subject)")
				}
				x.derr = errStr(err)
			}
		}
		// ---- calls that fail, and calls on a stream of two messages (one-shot decode of the first, continuous
		// read of the second): alone first, with the same maps
		nReal := len(vals)
		extras, badAlone := c12Extras(vals[0], vals[1%len(vals)], tm, nm, rapid.IntRange(0, 1<<20).Draw(rt, "extraPick"))
		if badAlone != "" {
			failf(rt, c, "C12 (one call after the other, each on a fresh Serializer over the shared maps) %s", badAlone)
		}
		withExtras := rapid.IntRange(0, 2).Draw(rt, "withFailingAndStreamCalls") != 0
		nmBefore := copyNames(nm)
		n := rapid.SampledFrom([]int{2, 4, 16, 64}).Draw(rt, "goroutines")
		mode := rapid.SampledFrom([]string{"fresh-serializer", "serializer-pool", "encoder+decoder-pool", "fresh-encoder+decoder"}).Draw(rt, "instances")
		ops := rapid.IntRange(4, 24).Draw(rt, "opsPerGoroutine")
		plan := make([][]int, n)
		for g := range plan {
			plan[g] = make([]int, ops)
			for i := range plan[g] {
				plan[g][i] = rapid.IntRange(0, len(vals)-1).Draw(rt, "pick")
				if withExtras && rapid.IntRange(0, 3).Draw(rt, "extra") == 0 {
					plan[g][i] = nReal + rapid.IntRange(0, len(extras)-1).Draw(rt, "pickExtra")
				}
			}
		}
		c.set("goroutines", n)
		c.set("instances", mode)
		descs := []string{}
		for _, x := range vals {
			descs = append(descs, x.desc)
		}
		c.set("values", descs)
		r.Current(fmt.Sprintf("C12 n=%d %s %v", n, mode, descs))
		sp := hessian.NewSerializerPool(3, tm, nm)
		ep := hessian.NewEncoderPool(3, nm)
		dp := hessian.NewDecoderPool(3, tm)
		var firstErr atomic.Value
		var wg sync.WaitGroup
		start := make(chan struct{})
		for g := 0; g < n; g++ {
			wg.Add(1)
			go func(g int) {
				defer wg.Done()
				defer func() {
					if p := recover(); p != nil {
						firstErr.CompareAndSwap(nil, fmt.Sprintf("goroutine %d panicked: %v", g, p))
					}
				}()
				var ser hessian.Serializer
				var enc *hessian.Encoder
				var dec *hessian.Decoder
				switch mode {
				case "fresh-serializer":
					ser = hessian.NewSerializer(tm, nm)
				case "fresh-encoder+decoder":
					enc, dec = hessian.NewEncoder(nil, nm), hessian.NewDecoder(nil, tm)
				}
				<-start
				for _, idx := range plan[g] {
					switch mode {
					case "serializer-pool":
						ser = sp.Get().(hessian.Serializer)
					case "encoder+decoder-pool":
						enc, dec = ep.Get().(*hessian.Encoder), dp.Get().(*hessian.Decoder)
					}
					if idx >= nReal {
						if msg := extras[idx-nReal].run(ser, enc, dec); msg != "" {
							firstErr.CompareAndSwap(nil, fmt.Sprintf("goroutine %d: %s", g, msg))
							return
						}
						switch mode {
						case "serializer-pool":
							sp.Return(ser)
						case "encoder+decoder-pool":
							ep.Return(enc)
							dp.Return(dec)
						}
						continue
					}
					x := vals[idx]
					var b []byte
					var err error
					if ser != nil {
						b, err = ser.ToBytes(x.v)
					} else {
						b, err = enc.Encode(x.v)
					}
					if errStr(err) != x.eerr {
						firstErr.CompareAndSwap(nil, fmt.Sprintf("goroutine %d: encode of value %d returned error %v, alone it returned %q", g, idx, err, x.eerr))
						return
					}
					if err == nil {
						if msg := sameStream(x.bytes, b); msg != "" {
							firstErr.CompareAndSwap(nil, fmt.Sprintf("goroutine %d: encode of value %d differs from the result of the same call run alone: %s", g, idx, msg))
							return
						}
						var o interface{}
						if ser != nil {
							o, err = ser.ToObject(x.bytes)
						} else {
							o, err = dec.Decode(x.bytes)
						}
						if errStr(err) != x.derr {
							firstErr.CompareAndSwap(nil, fmt.Sprintf("goroutine %d: decode of value %d returned error %v, alone it returned %q", g, idx, err, x.derr))
							return
						}
						if err == nil {
							if cerr := vcmp.EqualValues(x.obj, o); cerr != nil {
								firstErr.CompareAndSwap(nil, fmt.Sprintf("goroutine %d: decode of value %d differs from the result of the same call run alone: %v", g, idx, cerr))
								return
							}
						}
					}
					switch mode {
					case "serializer-pool":
						sp.Return(ser)
					case "encoder+decoder-pool":
						ep.Return(enc)
						dp.Return(dec)
					}
				}
			}(g)
		}
		close(start)
		wg.Wait()
		r.EvalN(int64(n * ops))
		if e := firstErr.Load(); e != nil {
			failf(rt, c, "C12 %d goroutines, %s: %v\n values: %v", n, mode, e, descs)
		}
		if !reflect.DeepEqual(nm, nmBefore) {
			failf(rt, c, "C12: the shared, complete name map was modified by concurrent use")
		}
		types := map[string]bool{}
		for _, x := range vals {
			types[fmt.Sprintf("%T", x.v)] = true
		}
		if n >= 2 && len(types) >= 2 {
			r.NonTrivial(av.Hash(fmt.Sprint(n, mode, descs, plan)))
		}
		r.Label(fmt.Sprintf("goroutines:%d", n))
		r.Label("instances:" + mode)
		if withExtras {
			r.Label("plan includes failing calls and two-message streams")
		}
		r.Label(fmt.Sprintf("GOMAXPROCS:%d", runtime.GOMAXPROCS(0)))
		r.Sample(func() interface{} {
			return map[string]interface{}{"goroutines": n, "instances": mode, "ops_per_goroutine": ops, "values": descs}
		})
	})
	if t.Failed() {
		return
	}
	// ---------------- cold start: a struct type nobody in this process has encoded or
	// decoded before is used by N goroutines at the same moment (lazily filled shared
	// caches are invisible once warm). Oracle: plain round trip of each goroutine's result.
	rng := seedFor("C12cold")
	rounds := rec.EnvInt("VERIF_C12_COLD", 40)
	kinds := []reflect.Type{reflect.TypeOf(int32(0)), reflect.TypeOf(""), reflect.TypeOf(float64(0)), reflect.TypeOf(true), reflect.TypeOf(int64(0)), reflect.TypeOf([]int32{}), reflect.TypeOf(uint16(0))}
	for round := 0; round < rounds; round++ {
		nf := 2 + int(rng.next()%10)
		fields := make([]reflect.StructField, nf)
		for i := range fields {
			fields[i] = reflect.StructField{Name: fmt.Sprintf("F%d_%d_%d", round, i, rng.next()%1000), Type: kinds[rng.next()%uint64(len(kinds))]}
		}
		typ := reflect.StructOf(fields)
		val := reflect.New(typ)
		for i := 0; i < nf; i++ {
			f := val.Elem().Field(i)
			switch f.Kind() {
			case reflect.Int32, reflect.Int64:
				f.SetInt(int64(int32(rng.next())))
			case reflect.Uint16:
				f.SetUint(rng.next() % 65536)
			case reflect.String:
				f.SetString(fmt.Sprintf("s%d", rng.next()%100000))
			case reflect.Float64:
				f.SetFloat(float64(rng.next()%1000) / 8)
			case reflect.Bool:
				f.SetBool(rng.next()%2 == 0)
			case reflect.Slice:
				f.Set(reflect.ValueOf([]int32{int32(rng.next() % 100), 2, 3}))
			}
		}
		v := val.Interface()
		nm := map[string]string{"": "dyn.Cold", "[]int32": "[int"}
		tm := map[string]reflect.Type{"dyn.Cold": typ, "[int": reflect.TypeOf([]int32{}), "[int32": reflect.TypeOf([]int32{}), "Inner": reflect.TypeOf(zoo.Inner{})}
		n := []int{2, 4, 8, 16}[rng.next()%4]
		// the same instance as a newer peer would send it: unknown fields in between (the decoder's
		// skip path, including whatever it logs or caches about unknown fields, runs concurrently too)
		var alt []byte
		if a, perr := zoo.Project(v, nm); perr == nil {
			obj := &av.V{K: av.Object, Type: a.Type}
			for i := range a.Fields {
				obj.Fields = append(obj.Fields, fmt.Sprintf("unknown%d_%d", round, i), a.Fields[i])
				obj.Elems = append(obj.Elems, c05Extra(i), a.Elems[i])
			}
			alt = refcodec.Encode(obj, refcodec.Canonical{}, refcodec.EncOptions{})
		}
		var ready, go_ int32
		var wg sync.WaitGroup
		errs := make([]string, n)
		outs := make([][]byte, n)
		for g := 0; g < n; g++ {
			wg.Add(1)
			go func(g int) {
				defer wg.Done()
				defer func() {
					if p := recover(); p != nil {
						errs[g] = fmt.Sprintf("panic: %v", p)
					}
				}()
				atomic.AddInt32(&ready, 1)
				for atomic.LoadInt32(&go_) == 0 { // spin barrier: start within microseconds of each other
					runtime.Gosched() // never a bare spin: under the race detector it is not preemptible
				}
				b, err := hessian.NewEncoder(nil, nm).Encode(v)
				if err != nil {
					errs[g] = "encode: " + err.Error()
					return
				}
				outs[g] = b
				in := b
				if g%2 == 1 && alt != nil {
					in = alt
				}
				o, err := hessian.NewDecoder(nil, tm).Decode(in)
				if err != nil {
					errs[g] = "decode: " + err.Error()
					return
				}
				if !reflect.DeepEqual(o, v) {
					errs[g] = fmt.Sprintf("first concurrent use of a struct type: decoded %+v, want %+v", o, v)
				}
			}(g)
		}
		for atomic.LoadInt32(&ready) < int32(n) {
			runtime.Gosched()
		}
		atomic.StoreInt32(&go_, 1)
		wg.Wait()
		r.EvalN(int64(n))
		r.NonTrivial(av.Hash(fmt.Sprint("cold", round, typ.String())))
		r.Label("cold-start:first-concurrent-use-of-a-type")
		for g := 0; g < n; g++ {
			if errs[g] == "" && !bytes.Equal(outs[g], outs[0]) {
				errs[g] = "first concurrent use of a struct type: two goroutines encoded the same value differently"
			}
			if errs[g] != "" {
				directFail(t, "C12", map[string]interface{}{"phase": "cold-start", "goroutines": n, "type": typ.String()}, "C12 %d goroutines, first use of %v: %s", n, typ, errs[g])
			}
		}
	}
	// ---------------- nested interleaving, deterministic and single-goroutine: while instance A is
	// in the middle of a call (inside one of its Write / Read / ReadRune callbacks), instance B
	// performs a complete call of its own. This is one legal interleaving of "two instances used
	// at the same time" at every callback point, and it needs no scheduler luck: package-level
	// scratch buffers, pooled buffers handed back too early and shared tables show at once.
	irng := seedFor("C12nested")
	shapes := c12NestedValues(irng)
	tmN, nmN := hessian.ExtractTypeNameMap(shapes)
	encN := make([][]byte, len(shapes))
	for i, v := range shapes {
		b, err := hessian.NewEncoder(nil, copyNames(nmN)).Encode(v)
		if err != nil {
			t.Fatalf("C12 nested: reference encode of shape %d failed: %v", i, err)
		}
		encN[i] = b
	}
	for i := range shapes {
		for j := range shapes {
			// A encodes shapes[i]; at every Write, B encodes shapes[j] completely
			w := &nestingWriter{inner: func() {
				b, err := hessian.NewEncoder(nil, nmN).Encode(shapes[j])
				if err != nil || !bytes.Equal(b, encN[j]) {
					panic(fmt.Sprintf("inner encode differs (err %v)", err))
				}
			}}
			var err error
			pv, _ := guard(func() { err = hessian.NewEncoder(nil, nmN).WriteTo(w, shapes[i]) })
			if pv != nil || err != nil || sameStream(encN[i], w.buf.Bytes()) != "" {
				directFail(t, "C12", map[string]interface{}{"phase": "nested-encode", "outer": zoo.Describe(shapes[i], 200), "inner": zoo.Describe(shapes[j], 200)},
					"C12 an Encoder encoding %s was disturbed by another Encoder encoding %s between two of its writes: err=%v panic=%v %s",
					zoo.Describe(shapes[i], 120), zoo.Describe(shapes[j], 120), err, pv, sameStream(encN[i], w.buf.Bytes()))
			}
			// A decodes encN[i]; at every Read / ReadRune, B decodes encN[j] completely
			want, _ := hessian.ToObject(encN[i], tmN)
			rd := &nestingReader{countingReader: countingReader{b: encN[i]}, inner: func() {
				if _, err := hessian.NewDecoder(nil, tmN).Decode(encN[j]); err != nil {
					panic("inner decode failed: " + err.Error())
				}
			}}
			var got interface{}
			pv, _ = guard(func() { got, err = hessian.NewDecoder(nil, tmN).ReadFrom(rd) })
			if pv != nil || err != nil || vcmp.EqualValues(want, got) != nil {
				directFail(t, "C12", map[string]interface{}{"phase": "nested-decode", "outer": zoo.Describe(shapes[i], 200), "inner": zoo.Describe(shapes[j], 200)},
					"C12 a Decoder decoding %s was disturbed by another Decoder decoding %s between two of its reads: err=%v panic=%v diff=%v",
					zoo.Describe(shapes[i], 120), zoo.Describe(shapes[j], 120), err, pv, vcmp.EqualValues(want, got))
			}
			r.EvalN(2)
			r.NonTrivial(av.Hash(fmt.Sprint("nested", i, j)))
		}
	}
	r.Label("nested-interleaving:every-callback-point")
}

// c12NestedValues: one value per encoder / decoder code path that could own a scratch buffer.
func c12NestedValues(rng *splitmix) []interface{} {
	in := &zoo.Inner{A: 7, S: "shared"}
	tm1, tm2 := time.UnixMilli(1500000000123), time.Unix(1600000000, 0)
	return []interface{}{
		&zoo.Scalars{B: true, I8: -3, I16: 300, I32: 70000, I: -5, I64: 1 << 40, U8: 200, U16: 60000, U32: 1 << 31, U: 99, U64: 1 << 63, F32: 0.1, F64: 3.14159, S: "héllo", Bin: []byte{1, 2, 3}, T: tm1},
		&zoo.FloatFields{F32: 1.5, F64: 1e100, L64: []float64{0.1, 2, 300, 1e-300, -0.5}, L32: []float32{0.25, 7}},
		&zoo.TimeCarrier{T: tm1, L: []time.Time{tm2, tm1, time.UnixMilli(-5)}, T2: tm2},
		&zoo.StrCarrier{S: mkString(4, 2500, 0, 0, 3), L: []string{mkString(0, 2049, 0, 0, 4), "x"}, MK: map[string]int32{"k": 1}},
		&zoo.BinCarrier{B: mkBytes(9000, 1), L: [][]byte{mkBytes(4097, 2)}},
		&zoo.IntLists{I32: []int32{1, 300, 70000, -1 << 31}, I64: []int64{1, 1 << 20, 1 << 40, -1 << 63}, U64: []uint64{1 << 63}},
		&zoo.SlPtr{L: []*zoo.Inner{in, nil, in, {A: 1, S: "other"}}},
		&zoo.ManyL{Items: []interface{}{&zoo.K00{A: 1}, &zoo.K01{A: "x"}, &zoo.K02{A: 2}, &zoo.K00{A: 3}, []interface{}{int32(1), "s"}, map[interface{}]interface{}{"k": int64(5)}}},
		&zoo.NMapHolder{T: "t", M: zoo.NMap{"a": {A: 1, B: "b"}}},
		zoo.ManyClasses(20),
		// nested 300 deep: whatever two instances count or stack while descending must not add up
		deepChain(300, 299, reflect.TypeOf(zoo.K00{})),
	}
}

// nestedEncode encodes v while another Encoder encodes `other` completely between any two
// writes; the result must be the plain encoding.
func nestedEncode(v, other interface{}, nm map[string]string, plain []byte) error {
	w := &nestingWriter{inner: func() { hessian.NewEncoder(nil, nm).Encode(other) }}
	var err error
	if pv, st := guard(func() { err = hessian.NewEncoder(nil, nm).WriteTo(w, v) }); pv != nil || err != nil {
		return fmt.Errorf("encode while another Encoder works between the writes failed: %v %v [%s]", err, pv, st)
	}
	if msg := sameStream(plain, w.buf.Bytes()); msg != "" {
		return fmt.Errorf("the stream differs when another Encoder encodes a value between two writes: %s", msg)
	}
	return nil
}

type nestingWriter struct {
	buf   bytes.Buffer
	inner func()
	busy  bool
}

func (w *nestingWriter) Write(p []byte) (int, error) {
	// keep p untouched until the inner call is over: a returned slice that aliases a
	// recycled buffer is overwritten by the inner call before it is consumed here
	if !w.busy {
		w.busy = true
		w.inner()
		w.busy = false
	}
	return w.buf.Write(p)
}

type nestingReader struct {
	countingReader
	inner func()
	busy  bool
	runes int
}

func (r *nestingReader) Read(p []byte) (int, error) {
	n, err := r.countingReader.Read(p)
	// the bytes are in the caller's buffer now; if that buffer is shared, the inner call clobbers it
	if !r.busy {
		r.busy = true
		r.inner()
		r.busy = false
	}
	return n, err
}

func (r *nestingReader) ReadRune() (rune, int, error) {
	c, n, err := r.countingReader.ReadRune()
	r.runes++
	if !r.busy && (r.runes < 4 || r.runes%97 == 0) { // a long string: not at every single character
		r.busy = true
		r.inner()
		r.busy = false
	}
	return c, n, err
}

// ---------------------------------------------------------------------------
// failing calls and two-message streams
// ---------------------------------------------------------------------------

// c12Extra is one call (or pair of calls) with the result it produced when run alone.
type c12Extra struct {
	what   string
	encBad interface{} // encode of a value that is refused
	decIn  []byte      // one-shot decode of these octets (garbage, or a stream of two messages)
	second bool        // decIn holds two messages: one-shot decode, then one continuous read
	want   interface{} // when set: the value decIn denotes (the call alone must produce it, too)
	bad    string
	err1   string
	obj1   interface{}
	err2   string
	obj2   interface{}
}

func (x *c12Extra) alone(tm map[string]reflect.Type, nm map[string]string) bool {
	s := hessian.NewSerializer(tm, nm)
	var err error
	pv, _ := guard(func() {
		if x.decIn == nil {
			_, err = s.ToBytes(x.encBad)
			x.err1 = errStr(err)
			return
		}
		x.obj1, err = s.ToObject(x.decIn)
		x.err1 = errStr(err)
		if x.want != nil {
			if err != nil {
				x.bad = fmt.Sprintf("%s failed: %v", x.what, err)
			} else if cerr := vcmp.Equal(x.want, x.obj1, nm); cerr != nil {
				x.bad = fmt.Sprintf("%s gave another value than the octets denote: %v", x.what, cerr)
			}
		}
		if x.second {
			x.obj2, err = s.Read()
			x.err2 = errStr(err)
		}
	})
	return pv == nil
}

// run performs the call on the goroutine's own instance and compares with the result obtained alone.
func (x *c12Extra) run(ser hessian.Serializer, enc *hessian.Encoder, dec *hessian.Decoder) string {
	if x.decIn == nil {
		var err error
		if ser != nil {
			_, err = ser.ToBytes(x.encBad)
		} else {
			_, err = enc.Encode(x.encBad)
		}
		if errStr(err) != x.err1 {
			return fmt.Sprintf("%s returned error %v, alone it returned %q", x.what, err, x.err1)
		}
		return ""
	}
	var o1, o2 interface{}
	var e1, e2 error
	if ser != nil {
		o1, e1 = ser.ToObject(x.decIn)
		if x.second {
			o2, e2 = ser.Read()
		}
	} else {
		o1, e1 = dec.Decode(x.decIn)
		if x.second {
			o2, e2 = dec.ReadObject()
		}
	}
	if errStr(e1) != x.err1 {
		return fmt.Sprintf("%s returned error %v, alone it returned %q", x.what, e1, x.err1)
	}
	if e1 == nil {
		if cerr := vcmp.EqualValues(x.obj1, o1); cerr != nil {
			return fmt.Sprintf("%s differs from the result of the same call run alone: %v", x.what, cerr)
		}
		if where := sharedObject(x.obj1, o1); where != "" {
			return fmt.Sprintf("%s: the result shares the object at %s with the result of an earlier call on another instance (what one caller does to its result shows in the other's)", x.what, where)
		}
	}
	if x.second {
		if errStr(e2) != x.err2 {
			return fmt.Sprintf("%s: the continuous read of the second message returned error %v, alone it returned %q", x.what, e2, x.err2)
		}
		if e2 == nil {
			if cerr := vcmp.EqualValues(x.obj2, o2); cerr != nil {
				return fmt.Sprintf("%s: the continuous read of the second message differs from the same call run alone: %v", x.what, cerr)
			}
		}
	}
	return ""
}

var c12BadValues = []struct {
	what string
	v    func() interface{}
}{
	{"encode of a list holding a channel", func() interface{} { return []interface{}{int32(1), make(chan int), "x"} }},
	{"encode of a struct whose Go int field is beyond 32 bits", func() interface{} { return &zoo.IntFields{I8: 1, I: 1 << 40} }},
	{"encode of a map holding a complex number", func() interface{} { return map[string]interface{}{"k": complex(1, 2)} }},
	{"encode of a function", func() interface{} { return func() {} }},
	{"encode of a []int with an element beyond 32 bits", func() interface{} { return []int{1, -1 << 40} }},
}

// c12Extras builds the extra calls for one case and runs each alone.
func c12Extras(a, b *c12Value, tm map[string]reflect.Type, nm map[string]string, pick int) ([]*c12Extra, string) {
	var out []*c12Extra
	// two peers that list the fields of one class in different orders (and one that sends fewer): every decoder
	// reads its own stream's definition
	tm["F3"], tm["F5"], tm["Inner"], tm["[string"] = reflect.TypeOf(zoo.F3{}), reflect.TypeOf(zoo.F5{}), reflect.TypeOf(zoo.Inner{}), reflect.TypeOf([]string{})
	f3 := reflect.ValueOf(&zoo.F3{A: int32(pick % 100000), B: "bee", C: 2.5}).Elem()
	f5 := reflect.ValueOf(&zoo.F5{A: int32(pick % 1000), B: "b", C: []string{"x", "y"}, D: zoo.Inner{A: 9, S: "d"}, E: []byte{1, 2}}).Elem()
	perms3, perms5 := permutations(3), permutations(5)
	for i := 0; i < 3; i++ {
		for _, pr := range []struct {
			v    reflect.Value
			perm []int
		}{{f3, perms3[(pick+i*5)%len(perms3)]}, {f5, perms5[(pick+i*37)%len(perms5)]}, {f5, perms5[(pick+i*11)%len(perms5)][:4]}} {
			obj, exp := c05Render(pr.v, c05Plan{order: pr.perm})
			out = append(out, &c12Extra{what: fmt.Sprintf("decode of a %s whose definition lists the fields in the order %v", pr.v.Type().Name(), pr.perm),
				decIn: refcodec.Encode(obj, refcodec.Canonical{}, refcodec.EncOptions{}), want: exp})
		}
	}
	for _, bv := range c12BadValues {
		out = append(out, &c12Extra{what: bv.what, encBad: bv.v()})
	}
	small := c14Small()
	for i := 0; i < 4; i++ {
		gb := small[(pick+i*7)%len(small)]
		out = append(out, &c12Extra{what: "decode of " + hexClip(gb, 24), decIn: gb})
	}
	if len(a.bytes) > 2 {
		out = append(out, &c12Extra{what: "decode of a truncated message", decIn: a.bytes[:len(a.bytes)/2]})
	}
	// a stream of two messages written through one encoder
	for _, pr := range [][2]*c12Value{{a, b}, {b, a}} {
		var buf bytes.Buffer
		e := hessian.NewEncoder(nil, copyNames(nm))
		if pv, _ := guard(func() {
			if e.WriteTo(&buf, pr[0].v) != nil || e.WriteObject(pr[1].v) != nil {
				buf.Reset()
			}
		}); pv == nil && buf.Len() > 0 {
			out = append(out, &c12Extra{what: "one-shot decode of the first of two messages (" + pr[0].desc + ")", decIn: append([]byte{}, buf.Bytes()...), second: true})
		}
	}
	// a binary in the draft's chunk tag on one decoder, then - on another - a message whose third class has an
	// instance in the short form x62 at an untyped position (one octet, two meanings, told apart per message)
	tm["K00"], tm["K01"], tm["K02"] = reflect.TypeOf(zoo.K00{}), reflect.TypeOf(zoo.K01{}), reflect.TypeOf(zoo.K02{})
	out = append(out, &c12Extra{what: "decode of a binary sent in 'b' chunks", decIn: []byte{'b', 0, 2, 'x', 'y', 'b', 0, 1, '-', 0x22, 'z', 'w'}, want: []byte("xy-zw")})
	out = append(out, &c12Extra{what: "decode of a list holding instances of three classes, the third in the short form x62",
		decIn: []byte{0x57, 'C', 3, 'K', '0', '0', 0x91, 1, 'a', 0x60, 0x95, 'C', 3, 'K', '0', '1', 0x91, 1, 'a', 0x61, 1, 'x', 'C', 3, 'K', '0', '2', 0x91, 1, 'a', 0x62, 0xe5, 0x62, 0xe6, 'Z'},
		want:  []interface{}{&zoo.K00{A: 5}, &zoo.K01{A: "x"}, &zoo.K02{A: 5}, &zoo.K02{A: 6}}})
	tm["Color"] = reflect.TypeOf(zoo.Color{})
	for _, name := range []string{"RED", "GREEN"} {
		out = append(out, &c12Extra{what: "decode of the enum constant " + name + " (an instance of a class whose one field is \"name\")",
			decIn: refcodec.Encode(&av.V{K: av.Object, Type: "Color", Fields: []string{"name"}, Elems: []*av.V{av.StringV(name)}}, refcodec.Canonical{}, refcodec.EncOptions{}),
			want:  &zoo.Color{Name: name}})
	}
	keep := out[:0]
	bad := ""
	for _, x := range out {
		if x.alone(tm, nm) {
			keep = append(keep, x)
		}
		if x.bad != "" && bad == "" {
			bad = x.bad
		}
	}
	return keep, bad
}

// c12ColdErrors: several goroutines, each with instances of its own, hit every refusing path for the first time
// in this process at the same moment; every call must return what it returns alone (afterwards, warm).
func c12ColdErrors(t *testing.T, r *rec.Rec) {
	c14InitMaps()
	small := c14Small()
	n := 8
	type res struct{ enc, dec []string }
	results := make([]res, n)
	var ready, goFlag int32
	var wg sync.WaitGroup
	var panicked atomic.Value
	doAll := func(out *res, rot int) {
		for i := range c12BadValues {
			bv := c12BadValues[(i+rot)%len(c12BadValues)]
			_, err := hessian.NewEncoder(nil, nil).Encode(bv.v())
			out.enc = append(out.enc, fmt.Sprintf("%d:%s", (i+rot)%len(c12BadValues), errStr(err)))
		}
		for i := range small {
			j := (i + rot*5) % len(small)
			for k := 0; k < 2; k++ {
				_, err := hessian.NewDecoder(nil, c14Maps[k]).Decode(small[j])
				out.dec = append(out.dec, fmt.Sprintf("%d/%d:%s", j, k, errStr(err)))
			}
		}
	}
	for g := 0; g < n; g++ {
		wg.Add(1)
		go func(g int) {
			defer wg.Done()
			defer func() {
				if p := recover(); p != nil {
					panicked.CompareAndSwap(nil, fmt.Sprintf("goroutine %d panicked: %v", g, p))
				}
			}()
			atomic.AddInt32(&ready, 1)
			for atomic.LoadInt32(&goFlag) == 0 {
				runtime.Gosched()
			}
			doAll(&results[g], g)
		}(g)
	}
	for atomic.LoadInt32(&ready) < int32(n) {
		runtime.Gosched()
	}
	atomic.StoreInt32(&goFlag, 1)
	wg.Wait()
	if p := panicked.Load(); p != nil {
		directFail(t, "C12", map[string]interface{}{"phase": "cold-error-sites", "goroutines": n}, "C12 %d goroutines hitting the refusing paths for the first time: %v", n, p)
		return
	}
	var alone res
	doAll(&alone, 0)
	want := map[string]bool{}
	for _, s := range alone.enc {
		want["e"+s] = true
	}
	for _, s := range alone.dec {
		want["d"+s] = true
	}
	for g := 0; g < n; g++ {
		for _, s := range results[g].enc {
			if !want["e"+s] {
				directFail(t, "C12", map[string]interface{}{"phase": "cold-error-sites", "goroutines": n}, "C12 first concurrent use of a refusing encode path: goroutine %d got %q for %s, alone the call returns otherwise", g, s, c12BadValues[0].what)
				return
			}
		}
		for _, s := range results[g].dec {
			if !want["d"+s] {
				directFail(t, "C12", map[string]interface{}{"phase": "cold-error-sites", "goroutines": n}, "C12 first concurrent use of a refusing decode path: goroutine %d got %q (input/typemap:result), alone the call returns otherwise", g, s)
				return
			}
		}
	}
	r.EvalN(int64(n * (len(c12BadValues) + 2*len(small))))
	r.NonTrivial(av.Hash("cold-error-sites"))
	r.Label("cold-start:first-concurrent-use-of-the-refusing-paths")
}

// sharedObject reports a struct that is reachable (through pointers, lists, maps, interface slots) from both
// results: the values two decode calls return are the callers' own.
func sharedObject(a, b interface{}) string {
	seen, visited := map[unsafe.Pointer]bool{}, map[unsafe.Pointer]bool{}
	var walk func(v reflect.Value, path string, collect bool, depth int) string
	walk = func(v reflect.Value, path string, collect bool, depth int) string {
		if depth > 40 || !v.IsValid() {
			return ""
		}
		switch v.Kind() {
		case reflect.Interface:
			if !v.IsNil() {
				return walk(v.Elem(), path, collect, depth+1)
			}
		case reflect.Ptr:
			if v.IsNil() || v.Type().Elem().Kind() != reflect.Struct || v.Type().Elem() == zoo.TimeType || v.Type().Elem().Size() == 0 {
				return ""
			}
			p := v.UnsafePointer()
			if collect {
				if seen[p] {
					return ""
				}
				seen[p] = true
			} else {
				if seen[p] {
					return path
				}
				if visited[p] {
					return ""
				}
				visited[p] = true
			}
			return walk(v.Elem(), path, collect, depth+1)
		case reflect.Struct:
			if v.Type() == zoo.TimeType {
				return ""
			}
			for i := 0; i < v.NumField(); i++ {
				if w := walk(v.Field(i), path+"."+v.Type().Field(i).Name, collect, depth+1); w != "" {
					return w
				}
			}
		case reflect.Slice:
			if v.Type().Elem().Kind() == reflect.Uint8 {
				return ""
			}
			for i := 0; i < v.Len() && i < 50; i++ {
				if w := walk(v.Index(i), fmt.Sprintf("%s[%d]", path, i), collect, depth+1); w != "" {
					return w
				}
			}
		case reflect.Map:
			it := v.MapRange()
			for n := 0; it.Next() && n < 50; n++ {
				if w := walk(it.Value(), path+"[..]", collect, depth+1); w != "" {
					return w
				}
			}
		}
		return ""
	}
	walk(reflect.ValueOf(a), "<result>", true, 0)
	return walk(reflect.ValueOf(b), "<result>", false, 0)
}
