package props

func workerMain() {}
