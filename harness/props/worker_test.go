package props

import (
	"bufio"
	"bytes"
	"encoding/binary"
	"fmt"
	"io"
	"os"
	"os/exec"
	"reflect"
	"runtime"
	"runtime/debug"
	"strings"
	"syscall"
	"time"

	hessian "github.com/vogo/gohessian"

	"verif/harness/zoo"
)

// ---------------------------------------------------------------------------
// Worker process: executes hostile decode jobs in isolation. The test binary
// re-executes itself with VERIF_WORKER=1; jobs arrive length-prefixed on stdin,
// one fixed-layout verdict per job goes to stdout.
//
//	job     ::= u32 len, u8 entry, u8 typeMapKind, payload
//	verdict ::= u8 status (0 value, 1 error, 2 panic), u64 allocated octets, u64 nanoseconds, u16 len, message
// ---------------------------------------------------------------------------

var c14Entries = []string{"ToObject", "Decoder.Decode", "Decoder.ReadFrom", "Decoder.ReadObject x3", "Serializer.ToObject", "Serializer.ReadFrom+Read"}
var c14TypeMaps = []string{"matching", "empty", "wrong"}

var c14Maps [3]map[string]reflect.Type

func c14InitMaps() {
	// matching: everything the zoo can name (extracted from populated witnesses)
	all := []interface{}{}
	for _, t := range zoo.StructTypes {
		all = append(all, reflect.New(t).Interface())
	}
	for _, t := range zoo.KTypes {
		all = append(all, reflect.New(t).Interface())
	}
	all = append(all, zoo.NMap{}, zoo.PlainMap{}, &zoo.StrCarrier{}, &zoo.BinCarrier{}, &zoo.TimeCarrier{}, &zoo.IntFields{}, &zoo.IntLists{})
	tm, _ := hessian.ExtractTypeNameMap(all)
	// recursive container types under short wire names, and a list type for ref bombs
	tm["[tree"] = reflect.TypeOf(zoo.Tree{})
	tm["[ptree"] = reflect.TypeOf(zoo.PTree{})
	tm["j"] = reflect.TypeOf(zoo.JMap{})
	tm["[[int"] = reflect.TypeOf([][]int32{})
	tm["[m"] = reflect.TypeOf([]map[string]int64{})
	tm["[props"] = reflect.TypeOf([]zoo.Props{})
	tm["props"] = reflect.TypeOf(zoo.Props{})
	c14Maps[0] = tm
	c14Maps[1] = map[string]reflect.Type{}
	// wrong: every name mapped to the type of the next name (classes to other
	// classes, list names to struct types and vice versa)
	names := make([]string, 0, len(tm))
	for k := range tm {
		names = append(names, k)
	}
	sortStrings(names)
	wrong := map[string]reflect.Type{}
	for i, k := range names {
		wrong[k] = tm[names[(i+7)%len(names)]]
	}
	c14Maps[2] = wrong
}

func sortStrings(a []string) {
	for i := 1; i < len(a); i++ {
		for j := i; j > 0 && a[j] < a[j-1]; j-- {
			a[j], a[j-1] = a[j-1], a[j]
		}
	}
}

// decodeVia runs one decode entry point; it must simply return.
func decodeVia(entry int, in []byte, tm map[string]reflect.Type) (isErr bool) {
	var err error
	switch entry {
	case 0:
		_, err = hessian.ToObject(in, tm)
	case 1:
		_, err = hessian.NewDecoder(nil, tm).Decode(in)
	case 2:
		_, err = hessian.NewDecoder(nil, tm).ReadFrom(bufio.NewReader(bytes.NewReader(in)))
	case 3:
		d := hessian.NewDecoder(&countingReader{b: in}, tm)
		for i := 0; i < 3; i++ {
			if _, e := d.ReadObject(); e != nil {
				err = e
			}
		}
	case 4:
		// (the instance goes on to serve further messages, whatever this one was)
		s := hessian.NewSerializer(tm, nil)
		_, err = s.ToObject(in)
		s.ToObject([]byte{0x90})
	case 5:
		s := hessian.NewSerializer(tm, nil)
		_, err = s.ReadFrom(&countingReader{b: in})
		if _, e := s.Read(); e != nil {
			err = e
		}
	}
	return err != nil
}

func workerMain() {
	// address-space limit: a declared length must not be able to take the machine down
	lim := syscall.Rlimit{Cur: 4 << 30, Max: 4 << 30}
	syscall.Setrlimit(syscall.RLIMIT_AS, &lim)
	debug.SetMaxStack(512 << 20)
	debug.SetGCPercent(400)
	c14InitMaps()
	in := bufio.NewReaderSize(os.Stdin, 1<<20)
	out := bufio.NewWriterSize(os.Stdout, 1<<16)
	var ms runtime.MemStats
	for {
		var hdr [4]byte
		if _, err := io.ReadFull(in, hdr[:]); err != nil {
			return
		}
		n := binary.LittleEndian.Uint32(hdr[:])
		job := make([]byte, n)
		if _, err := io.ReadFull(in, job); err != nil {
			return
		}
		if n == 0 { // flush marker
			out.Flush()
			continue
		}
		entry, tmk, payload := int(job[0]), int(job[1]), job[2:]
		status := byte(0)
		msg := ""
		runtime.ReadMemStats(&ms)
		a0 := ms.TotalAlloc
		t0 := time.Now()
		func() {
			defer func() {
				if p := recover(); p != nil {
					status = 2
					msg = fmt.Sprintf("%v @ %s", p, panicSite())
				}
			}()
			if decodeVia(entry, payload, c14Maps[tmk]) {
				status = 1
			}
		}()
		dt := time.Since(t0)
		runtime.ReadMemStats(&ms)
		alloc := ms.TotalAlloc - a0
		if len(msg) > 400 {
			msg = msg[:400]
		}
		var rep [19]byte
		rep[0] = status
		binary.LittleEndian.PutUint64(rep[1:], alloc)
		binary.LittleEndian.PutUint64(rep[9:], uint64(dt))
		binary.LittleEndian.PutUint16(rep[17:], uint16(len(msg)))
		out.Write(rep[:])
		out.WriteString(msg)
		// one verdict per job reaches the parent at once: if the next job kills this
		// process, the parent knows exactly which one it was
		out.Flush()
	}
}

// panicSite names the innermost gohessian frame of a recovered panic.
func panicSite() string {
	st := string(debug.Stack())
	lines := strings.Split(st, "\n")
	for i, l := range lines {
		if strings.Contains(l, "gohessian.") && !strings.Contains(l, "props.") && i+1 < len(lines) {
			loc := strings.TrimSpace(lines[i+1])
			if j := strings.LastIndex(loc, "/"); j >= 0 {
				loc = loc[j+1:]
			}
			if j := strings.Index(loc, " "); j >= 0 {
				loc = loc[:j]
			}
			fn := strings.TrimSpace(l)
			if j := strings.Index(fn, "("); j > 0 && strings.HasPrefix(fn, "github.com") {
				fn = fn[strings.LastIndex(fn[:j], "/")+1:]
			}
			if j := strings.LastIndex(fn, "("); j > 0 {
				fn = fn[:j]
			}
			return fn + " " + loc
		}
	}
	return "?"
}

// ---------------------------------------------------------------------------
// Parent side
// ---------------------------------------------------------------------------

type job struct {
	entry, tm int
	payload   []byte
	origin    string
}

type verdict struct {
	status byte
	alloc  uint64
	nanos  uint64
	msg    string
}

type worker struct {
	cmd   *exec.Cmd
	stdin io.WriteCloser
	out   *bufio.Reader
	pr    *os.File
}

func startWorker() (*worker, error) {
	cmd := exec.Command(os.Args[0], "-test.run", "^$")
	cmd.Env = append(os.Environ(), "VERIF_WORKER=1")
	stdin, err := cmd.StdinPipe()
	if err != nil {
		return nil, err
	}
	pr, pw, err := os.Pipe()
	if err != nil {
		return nil, err
	}
	cmd.Stdout = pw
	cmd.Stderr = nil
	if os.Getenv("VERIF_WORKER_STDERR") != "" {
		cmd.Stderr = os.Stderr
	}
	if err := cmd.Start(); err != nil {
		return nil, err
	}
	pw.Close()
	return &worker{cmd: cmd, stdin: stdin, out: bufio.NewReaderSize(pr, 1<<16), pr: pr}, nil
}

func (w *worker) kill() {
	if w == nil || w.cmd == nil {
		return
	}
	w.cmd.Process.Kill()
	w.stdin.Close()
	w.cmd.Wait()
	w.pr.Close()
}

func (w *worker) send(jobs []job) error {
	var buf bytes.Buffer
	for _, j := range jobs {
		var hdr [4]byte
		binary.LittleEndian.PutUint32(hdr[:], uint32(len(j.payload)+2))
		buf.Write(hdr[:])
		buf.WriteByte(byte(j.entry))
		buf.WriteByte(byte(j.tm))
		buf.Write(j.payload)
	}
	buf.Write([]byte{0, 0, 0, 0}) // flush marker
	_, err := w.stdin.Write(buf.Bytes())
	return err
}

// recv reads one verdict, giving up after d.
func (w *worker) recv(d time.Duration) (verdict, bool) {
	w.pr.SetReadDeadline(time.Now().Add(d))
	var rep [19]byte
	if _, err := io.ReadFull(w.out, rep[:]); err != nil {
		return verdict{}, false
	}
	v := verdict{status: rep[0], alloc: binary.LittleEndian.Uint64(rep[1:]), nanos: binary.LittleEndian.Uint64(rep[9:])}
	n := binary.LittleEndian.Uint16(rep[17:])
	if n > 0 {
		m := make([]byte, n)
		if _, err := io.ReadFull(w.out, m); err != nil {
			return verdict{}, false
		}
		v.msg = string(m)
	}
	return v, true
}

// runAlone executes one job in a fresh worker with a generous budget; ok=false
// means the worker died or did not answer.
func runAlone(j job, budget time.Duration) (verdict, bool) {
	w, err := startWorker()
	if err != nil {
		return verdict{}, false
	}
	defer w.kill()
	if err := w.send([]job{j}); err != nil {
		return verdict{}, false
	}
	return w.recv(budget)
}
