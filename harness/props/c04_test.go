package props

import (
	"bytes"
	"fmt"
	"reflect"
	"strings"
	"testing"
	"time"

	hessian "github.com/vogo/gohessian"
	"pgregory.net/rapid"

	"verif/harness/av"
	"verif/harness/rec"
	"verif/harness/refcodec"
	"verif/harness/vcmp"
	"verif/harness/zoo"
)

const c04Layouts = 10

var c04LayoutName = []string{"all-zero(nil map, nil slices, zero time, nil ptr)", "empty-map", "two-empty-slices", "time", "string+bytes", "map+slice", "object", "mixed",
	"object-keyed map whose key is also a field", "[]T and []*T of one struct, the pointers shared with a field"}

// applyLayout fills the filler fields that sit in front of the pointer fields.
func applyLayout(n *zoo.FNode, layout, idx int) {
	switch layout {
	case 1:
		n.FM = map[string]int32{}
	case 2:
		n.FS = []int32{}
		n.FS2 = []string{}
	case 3:
		n.FT = time.Unix(1500000000+int64(idx), int64(idx%2)*5e6)
		if idx%2 == 0 {
			pt := time.Unix(1400000000+int64(idx), 7e6)
			n.FPT = &pt // a pointer to a timestamp is a date on the wire, not an object
		}
	case 4:
		n.FStr = "s"
		n.FBin = []byte{1, 2, 3}
	case 5:
		n.FM = map[string]int32{"k": int32(idx)}
		n.FS = []int32{1, 2}
	case 6:
		n.FP = &zoo.Inner{A: int32(idx), S: "p"}
	case 8:
		if idx%2 == 0 {
			// the key is an object of its own, first met as the key (the map is numbered before it)
			// and referred to again behind the map
			key := &zoo.Inner{A: int32(idx), S: "fresh key"}
			n.KM = map[*zoo.Inner]int32{key: int32(idx)}
			n.IP = []*zoo.Inner{key}
		} else {
			n.FP = &zoo.Inner{A: int32(idx), S: "key"}
			n.KM = map[*zoo.Inner]int32{n.FP: int32(idx)}
		}
	case 9:
		n.FP = &zoo.Inner{A: int32(idx), S: "shared"}
		n.IV = []zoo.Inner{{A: 1, S: "v"}, {A: 2, S: "w"}}
		n.IP = []*zoo.Inner{n.FP, nil, n.FP, {A: 3, S: "own"}}
	case 7:
		switch idx % 4 {
		case 0:
			n.FM = map[string]int32{}
			n.FT = time.Unix(1, 0)
			n.FS2 = []string{""}
		case 1:
			n.FS = []int32{}
			n.FP = &zoo.Inner{A: 1}
			n.FBin = []byte{}
		case 2:
			n.FM = map[string]int32{"a": 1, "b": 2}
			n.FStr = "x"
		case 3:
			n.FS = []int32{7}
			n.FS2 = []string{}
			n.FT = time.Unix(0, 1e6)
		}
	}
}

// c04Warm: a graph with shared nodes and containers, encoded before the graph under test
var c04Warm = func() *zoo.FNode {
	a := &zoo.FNode{Id: 100, FS: []int32{}, FM: map[string]int32{"w": 1}}
	b := &zoo.FNode{Id: 101, A: a, B: a, Ls: []*zoo.FNode{a}}
	a.A = b
	return b
}()

var c04TM map[string]reflect.Type
var c04NM map[string]string

func init() {
	w := &zoo.FNode{FP: &zoo.Inner{}, FM: map[string]int32{"a": 1}, FS: []int32{1}, FS2: []string{"a"}}
	w.A = w
	w.Ls = []*zoo.FNode{w}
	w.KM = map[*zoo.Inner]int32{w.FP: 1}
	w.IV = []zoo.Inner{{A: 1}}
	w.IP = []*zoo.Inner{w.FP}
	w.MLs = map[string][]*zoo.FNode{"a": {w}}
	w.LLs = [][]*zoo.FNode{{w}}
	w.Mp = map[string]*zoo.FNode{"a": w}
	c04TM, c04NM = hessian.ExtractTypeNameMap(w)
	c04ClassNames = map[string]string{}
	for k, v := range c04NM {
		if t, ok := c04TM[k]; ok && t.Kind() == reflect.Struct {
			c04ClassNames[k] = v
		}
	}
}

var c04ClassNames map[string]string

// graphCheck: encode terminates (a death is caught by the driver), decode
// succeeds, the decoded graph aliases exactly like the original, and the stream
// read by the reference decoder (its own stream-order numbering of containers)
// denotes the same graph as the independent projection of the Go value.
func graphCheck(root *zoo.FNode) string {
	if msg := graphCheckWith(root, c04NM); msg != "" {
		return msg
	}
	// the same with a name map that names the classes only: lists travel untyped and are
	// converted to the field types while references into them are still being bound
	if msg := graphCheckWith(root, c04ClassNames); msg != "" {
		return "(name map without list type names) " + msg
	}
	return ""
}

func graphCheckWith(root *zoo.FNode, c04NM map[string]string) string {
	var b []byte
	var err error
	var out interface{}
	if pv, st := guard(func() { b, err = hessian.ToBytes(root, copyNames(c04NM)) }); pv != nil || err != nil {
		return fmt.Sprintf("encode: %v %v [%s]", err, pv, st)
	}
	if pv, st := guard(func() { out, err = hessian.ToObject(b, c04TM) }); pv != nil || err != nil {
		return fmt.Sprintf("decode: %v %v [%s]; bytes %s", err, pv, st, hexClip(b, 200))
	}
	if cerr := vcmp.Equal(root, out, c04NM); cerr != nil {
		return fmt.Sprintf("decoded graph differs: %v; bytes %s", cerr, hexClip(b, 200))
	}
	// the ordinals of a message must not depend on what the instance encoded or decoded before
	var b2 []byte
	var out2 interface{}
	if pv, st := guard(func() {
		s := hessian.NewSerializer(c04TM, copyNames(c04NM))
		if _, err = s.ToBytes(c04Warm); err == nil {
			if b2, err = s.ToBytes(root); err == nil {
				out2, err = s.ToObject(b2)
			}
		}
	}); pv != nil || err != nil {
		return fmt.Sprintf("second message on one Serializer: %v %v [%s]", err, pv, st)
	}
	if msg := sameStream(b, b2); msg != "" {
		return "the same graph encoded as the second message of a Serializer differs from a fresh encoding: " + msg
	}
	if cerr := vcmp.Equal(root, out2, c04NM); cerr != nil {
		return fmt.Sprintf("decoded as the second message of a Serializer the graph differs: %v", cerr)
	}
	want, _ := zoo.Project(root, c04NM)
	got, _, derr := refcodec.Decode(b)
	if derr != nil {
		return fmt.Sprintf("stream not well-formed: %v; bytes %s", derr, hexClip(b, 200))
	}
	// which instant a date form denotes is C02/C10's subject (open finding on the compact form)
	opt := c02Canon
	opt.IgnoreDateValue = true
	w, g := av.Canon(want, opt), av.Canon(got, opt)
	if w != g {
		return fmt.Sprintf("a ref ordinal on the wire denotes another container than intended:\n want %s\n  got %s", clipDiff(w, g), clipDiff(g, w))
	}
	return ""
}

// sliceCycleCheck: graphs in which a slice is reachable from inside itself through a container element (a
// map value or list element of one of its own elements). Go cannot hold a reference to a list that is still
// being read as a map value, so the decoder may refuse such a stream; what it must not do is accept it and
// hand back another graph.
func sliceCycleCheck(root *zoo.FNode) (refused bool, msg string) {
	var b []byte
	var err error
	var out interface{}
	if pv, st := guard(func() { b, err = hessian.ToBytes(root, copyNames(c04NM)) }); pv != nil || err != nil {
		return false, fmt.Sprintf("encode: %v %v [%s]", err, pv, st)
	}
	if pv, st := guard(func() { out, err = hessian.ToObject(b, c04TM) }); pv != nil {
		return false, fmt.Sprintf("decode panicked: %v [%s]", pv, st)
	}
	if err != nil {
		return true, ""
	}
	if cerr := vcmp.Equal(root, out, c04NM); cerr != nil {
		return false, fmt.Sprintf("the stream was accepted (nil error) but the decoded graph differs: %v; bytes %s", cerr, hexClip(b, 200))
	}
	return false, ""
}

// buildSmall decodes graph number code: n nodes, each pointer slot in {nil, n0..}.
func buildSmall(n int, code int64, layout int) ([]*zoo.FNode, string) {
	nodes := make([]*zoo.FNode, n)
	for i := range nodes {
		nodes[i] = &zoo.FNode{Id: int32(i)}
		applyLayout(nodes[i], layout, i)
	}
	var sb strings.Builder
	base := int64(n + 1)
	for i := 0; i < n; i++ {
		for s := 0; s < 2; s++ {
			d := int(code % base)
			code /= base
			var p *zoo.FNode
			if d > 0 {
				p = nodes[d-1]
				fmt.Fprintf(&sb, "n%d.%c->n%d ", i, "AB"[s], d-1)
			}
			if s == 0 {
				nodes[i].A = p
			} else {
				nodes[i].B = p
			}
		}
	}
	return nodes, sb.String()
}

func hasSharingOrCycle(root *zoo.FNode) bool {
	indeg := map[*zoo.FNode]int{}
	seen := map[*zoo.FNode]bool{}
	var walk func(n *zoo.FNode)
	walk = func(n *zoo.FNode) {
		if n == nil {
			return
		}
		indeg[n]++
		if seen[n] {
			return
		}
		seen[n] = true
		walk(n.A)
		walk(n.B)
		for _, x := range n.Ls {
			walk(x)
		}
		for _, l := range n.MLs {
			for _, x := range l {
				walk(x)
			}
		}
		for _, l := range n.LLs {
			for _, x := range l {
				walk(x)
			}
		}
		for _, x := range n.Mp {
			walk(x)
		}
		if n.PLs != nil {
			for _, x := range *n.PLs {
				walk(x)
			}
		}
	}
	walk(root)
	for _, d := range indeg {
		if d >= 2 {
			return true
		}
	}
	return false
}

func ipow(b, e int) int64 {
	r := int64(1)
	for i := 0; i < e; i++ {
		r *= int64(b)
	}
	return r
}

func TestC04(t *testing.T) {
	r := rec.For("C04")
	shard, nshards := shardInfo()
	if rc := replayCase(); rc != nil {
		n, _ := caseInt(rc, "nodes")
		code, _ := caseInt(rc, "code")
		layout, _ := caseInt(rc, "layout")
		nodes, _ := buildSmall(int(n), code, int(layout))
		if msg := graphCheck(nodes[0]); msg != "" {
			t.Fatalf("replay: %s", msg)
		}
		return
	}
	// ---------------- exhaustive: every edge assignment of n nodes x layouts
	maxN := 3
	if rec.Thorough() {
		maxN = 4
	}
	var nt int64
	for n := 1; n <= maxN; n++ {
		total := ipow(n+1, 2*n)
		for code := int64(shard); code < total; code += int64(nshards) {
			for layout := 0; layout < c04Layouts; layout++ {
				nodes, edges := buildSmall(n, code, layout)
				if code%64 == 0 {
					r.Current(fmt.Sprintf("C04 exhaustive nodes=%d code=%d layout=%d edges: %s", n, code, layout, edges))
				}
				if msg := graphCheck(nodes[0]); msg != "" {
					directFail(t, "C04", map[string]interface{}{"nodes": fmt.Sprint(n), "code": fmt.Sprint(code), "layout": fmt.Sprint(layout), "edges": edges, "layout_name": c04LayoutName[layout]},
						"C04 graph of %d nodes, edges [%s], filler layout %q: %s", n, edges, c04LayoutName[layout], msg)
				}
				if hasSharingOrCycle(nodes[0]) {
					nt++
				}
				if layout == int(code%c04Layouts) {
					r.Sample(func() interface{} {
						return map[string]interface{}{"nodes": n, "edges": edges, "layout": c04LayoutName[layout]}
					})
				}
			}
		}
		r.EvalN((total - int64(shard) + int64(nshards) - 1) / int64(nshards) * c04Layouts)
		r.LabelN(fmt.Sprintf("exhaustive:nodes=%d", n), (total-int64(shard)+int64(nshards)-1)/int64(nshards)*c04Layouts)
	}
	r.NonTrivialExact(nt)
	r.Note("exhaustive_space", fmt.Sprintf("all (n+1)^(2n) pointer assignments for n=1..%d nodes x %d filler layouts (this shard: codes = shard mod nshards)", maxN, c04Layouts))
	// ---------------- flat graphs with very many references; octets of named types in front of a diamond
	if shard == 0 {
		four := []*zoo.FNode{{Id: 1}, {Id: 2}, {Id: 3}, {Id: 4}}
		for _, n := range []int{300, 1100, 1500, 5000} {
			root := &zoo.FNode{Id: int32(n)}
			for i := 0; i < n; i++ {
				root.Ls = append(root.Ls, four[(i*7+i/4)%4])
			}
			r.Current(fmt.Sprintf("C04 one list of %d slots that lead to 4 objects", n))
			if msg := graphCheck(root); msg != "" {
				directFail(t, "C04", map[string]interface{}{"slots": n, "objects": 4}, "C04 a list of %d slots that lead to 4 objects (%d references in one message): %s", n, n-4, msg)
			}
			r.Eval()
			r.NonTrivial(av.Hash(fmt.Sprint("flatrefs", n)))
		}
		for hl := 0; hl <= 3; hl++ {
			for pl := 0; pl <= 2; pl++ {
				leaf := &zoo.Block{N: 9, Hash: zoo.Digest(bytes.Repeat([]byte{7}, hl))}
				a := &zoo.Block{N: 1, Hash: zoo.Digest(bytes.Repeat([]byte{1, 200}, hl)), Perms: make([]zoo.Perm, pl), Parent: leaf}
				b := &zoo.Block{N: 2, Perms: make([]zoo.Perm, pl), Parent: leaf, Uncle: a}
				top := &zoo.Block{N: 3, Hash: zoo.Digest(bytes.Repeat([]byte{3}, hl)), Perms: make([]zoo.Perm, pl), Parent: a, Uncle: b, Kids: []*zoo.Block{a, b, leaf, a}}
				leaf.Uncle = top // and a cycle
				r.Current(fmt.Sprintf("C04 diamond of blocks with a named byte slice of %d and a []Perm of %d in front of the pointers", 2*hl, pl))
				stage, err, _ := roundTrip(top)
				if err != nil {
					directFail(t, "C04", map[string]interface{}{"hash_octets": 2 * hl, "perms": pl}, "C04 a diamond (and a cycle) of blocks whose pointer fields follow a named byte slice of %d octets and a []Perm of %d: %s: %v", 2*hl, pl, stage, err)
				}
				r.Eval()
				r.NonTrivial(av.Hash(fmt.Sprint("blocks", hl, pl)))
			}
		}
		r.Label("flat graphs of up to 5000 references; octets of named types in front of a diamond")
	}
	// ---------------- random: up to 200 nodes, pointer / slice / map edges, shared slices and maps
	check(t, "C04", func(rt *rapid.T, c *caseInfo) {
		n := rapid.IntRange(1, 12).Draw(rt, "nodes")
		if rapid.IntRange(0, 9).Draw(rt, "big") == 0 {
			n = rapid.IntRange(13, 200).Draw(rt, "nodesBig")
		}
		nodes := make([]*zoo.FNode, n)
		for i := range nodes {
			nodes[i] = &zoo.FNode{Id: int32(i)}
			applyLayout(nodes[i], rapid.IntRange(0, c04Layouts-1).Draw(rt, "layout"), i)
		}
		pick := func(label string) *zoo.FNode {
			d := rapid.IntRange(0, n).Draw(rt, label)
			if d == 0 {
				return nil
			}
			return nodes[d-1]
		}
		var sb strings.Builder
		contained := make([]bool, n) // nodes whose Ls also sits inside one of their own containers
		for i, nd := range nodes {
			nd.A, nd.B = pick("A"), pick("B")
			switch rapid.IntRange(0, 5).Draw(rt, "lsKind") {
			case 0, 1:
			case 2:
				if i > 0 {
					j := rapid.IntRange(0, i-1).Draw(rt, "shareLs")
					if contained[j] {
						break
					}
					nd.Ls = nodes[j].Ls // the same slice in two nodes
					fmt.Fprintf(&sb, "n%d.Ls==n%d.Ls ", i, j)
					if len(nd.Ls) > 1 && rapid.Bool().Draw(rt, "prefixOnly") {
						// a shorter slice of the same array is a different list
						nd.Ls = nd.Ls[:rapid.IntRange(1, len(nd.Ls)-1).Draw(rt, "prefixLen")]
						fmt.Fprintf(&sb, "(prefix of %d) ", len(nd.Ls))
					}
				}
			default:
				k := rapid.IntRange(0, 4).Draw(rt, "lsLen")
				nd.Ls = make([]*zoo.FNode, k)
				for x := range nd.Ls {
					nd.Ls[x] = pick("lsElem")
				}
			}
			// a slice of this node alone, met first as a map value / as an element of a list of lists and then in
			// the plain slice field (a slice shared with other nodes is kept out of containers: a reference to a
			// list that is still being read cannot become a map value or list element in Go, the decoder refuses
			// such a stream with an error, and the statement speaks of objects, not of slice values)
			if k := rapid.IntRange(0, 7).Draw(rt, "contKind"); k <= 2 {
				own := make([]*zoo.FNode, rapid.IntRange(1, 3).Draw(rt, "ownLen"))
				for x := range own {
					own[x] = pick("ownElem")
				}
				nd.Ls = own
				contained[i] = true
				switch k {
				case 0:
					nd.MLs = map[string][]*zoo.FNode{"own": own}
					fmt.Fprintf(&sb, "n%d.MLs[own]==n%d.Ls ", i, i)
				case 1:
					nd.LLs = [][]*zoo.FNode{own, {pick("otherElem")}, own}
					fmt.Fprintf(&sb, "n%d.LLs[0]==n%d.LLs[2]==n%d.Ls ", i, i, i)
				default:
					nd.MLs = map[string][]*zoo.FNode{"a": own}
					nd.LLs = [][]*zoo.FNode{own}
					fmt.Fprintf(&sb, "n%d.MLs[a]==n%d.LLs[0]==n%d.Ls ", i, i, i)
				}
			}
			if i > 0 && rapid.IntRange(0, 5).Draw(rt, "plsKind") == 0 {
				// a pointer to (a prefix of) another node's slice
				j := rapid.IntRange(0, i-1).Draw(rt, "plsOf")
				if src := nodes[j].Ls; len(src) > 0 && !contained[j] {
					sl := src[:rapid.IntRange(1, len(src)).Draw(rt, "plsLen")]
					nd.PLs = &sl
					fmt.Fprintf(&sb, "n%d.PLs->n%d.Ls[:%d] ", i, j, len(sl))
				}
			}
			switch rapid.IntRange(0, 5).Draw(rt, "mpKind") {
			case 0, 1:
			case 2:
				if i > 0 {
					j := rapid.IntRange(0, i-1).Draw(rt, "shareMp")
					nd.Mp = nodes[j].Mp // the same map in two nodes
					fmt.Fprintf(&sb, "n%d.Mp==n%d.Mp ", i, j)
				}
			default:
				k := rapid.IntRange(0, 3).Draw(rt, "mpLen")
				nd.Mp = map[string]*zoo.FNode{}
				for x := 0; x < k; x++ {
					nd.Mp[fmt.Sprintf("k%d", x)] = pick("mpVal")
				}
			}
		}
		// in one case of eight: a slice that is reachable from inside itself through a map value of one of its
		// own elements (lenient oracle: refusal or the same graph)
		sliceCycle := false
		if rapid.IntRange(0, 7).Draw(rt, "sliceCycle") == 0 {
			for i, nd := range nodes {
				if len(nd.Ls) > 0 && nd.Ls[0] != nil {
					nd.Ls[0].MLs = map[string][]*zoo.FNode{"siblings": nd.Ls}
					fmt.Fprintf(&sb, "n%d.Ls[0].MLs[siblings]==n%d.Ls (slice cycle) ", i, i)
					sliceCycle = true
					break
				}
			}
		}
		desc := zoo.Describe(nodes[0], 500)
		c.set("nodes", n)
		c.set("graph", desc)
		c.set("shared_containers", sb.String())
		r.Current("C04 random " + desc)
		r.Eval()
		if sliceCycle {
			refused, msg := sliceCycleCheck(nodes[0])
			r.Label("random:slice-cycle")
			if refused {
				r.Label("random:slice-cycle refused by the decoder")
			}
			if msg != "" {
				failf(rt, c, "C04 random graph of %d nodes with a slice cycle: %s\n graph: %s\n shared containers: %s", n, msg, desc, sb.String())
			}
			return
		}
		msg := graphCheck(nodes[0])
		if hasSharingOrCycle(nodes[0]) {
			r.NonTrivial(av.Hash(zoo.Describe(nodes[0], 100000)))
		}
		r.Label("random:nodes=" + bucket(n))
		if sb.Len() > 0 {
			r.Label("random:shared-slice-or-map")
		}
		r.Sample(func() interface{} {
			return map[string]interface{}{"nodes": n, "graph": desc, "shared_containers": sb.String()}
		})
		if msg != "" {
			failf(rt, c, "C04 random graph of %d nodes: %s\n graph: %s\n shared containers: %s", n, msg, desc, sb.String())
		}
	})
}
