package props

import (
	"fmt"
	"testing"
	"time"

	hessian "github.com/vogo/gohessian"

	"verif/harness/av"
	"verif/harness/rec"
	"verif/harness/refcodec"
	"verif/harness/zoo"
)

func timeOK(in, out time.Time) bool {
	if in.Nanosecond()%1e6 == 0 {
		return out.Equal(in)
	}
	// finer precision: less than a millisecond away
	dms := out.UnixMilli() - in.UnixMilli()
	if dms < -1 || dms > 1 {
		return false
	}
	d := out.Sub(in)
	return d > -time.Millisecond && d < time.Millisecond
}

func checkTime(tm time.Time) string {
	// ---- top level
	var b []byte
	var err error
	var out interface{}
	if pv, st := guard(func() { b, err = hessian.ToBytes(tm, nil) }); pv != nil || err != nil {
		return fmt.Sprintf("top-level encode: %v %v [%s]", err, pv, st)
	}
	if pv, st := guard(func() { out, err = hessian.ToObject(b, nil) }); pv != nil || err != nil {
		return fmt.Sprintf("top-level decode of %x: %v %v [%s]", b, err, pv, st)
	}
	if tm.IsZero() {
		if len(b) != 1 || b[0] != 'N' {
			return fmt.Sprintf("zero timestamp written as %x, not as null", b)
		}
	} else {
		o, ok := out.(time.Time)
		if !ok || !timeOK(tm, o) {
			return fmt.Sprintf("top level: %s (unix ms %d) written as %x decoded as %T %v", tm.UTC().Format(time.RFC3339Nano), tm.UnixMilli(), b, out, fmtTime(out))
		}
		// the bytes must be a date under the reference reading as well
		a, _, derr := refcodec.Decode(b)
		if derr != nil || a.K != av.Date {
			return fmt.Sprintf("top level: emitted %x is not a date: %v", b, derr)
		}
	}
	// ---- struct field, list element, map value, untyped element
	c := &zoo.TimeCarrier{T: tm, L: []time.Time{time.Unix(1, 0), tm, {}, tm}, M: map[string]time.Time{"a": tm}, A: []interface{}{tm, int32(1)}, T2: time.Time{}}
	if !tm.IsZero() {
		// the same *time.Time twice, and a shared object after the timestamps: a timestamp is
		// not a container and must not take part in reference numbering
		pt := tm
		shared := &zoo.Inner{A: 5, S: "after-dates"}
		c.PT1, c.PT2, c.P1, c.P2, c.LP = &pt, &pt, shared, shared, []*time.Time{&pt, nil, &pt}
	}
	// a map of a named map type, then two lists of timestamps
	mix := &zoo.TimeMix{Attrs: zoo.Stamps{"a": tm, "b": time.Unix(2, 0)}, Opened: []time.Time{tm}, Closed: []time.Time{time.UnixMilli(77), tm, tm}}
	if stage, rerr, _ := roundTrip(mix); rerr != nil {
		return fmt.Sprintf("named map type in front of two lists of timestamps: %s: %v", stage, rerr)
	}
	tmap, nm := hessian.ExtractTypeNameMap(c)
	if pv, st := guard(func() { b, err = hessian.ToBytes(c, nm) }); pv != nil || err != nil {
		return fmt.Sprintf("carrier encode: %v %v [%s]", err, pv, st)
	}
	if pv, st := guard(func() { out, err = hessian.ToObject(b, tmap) }); pv != nil || err != nil {
		return fmt.Sprintf("carrier decode: %v %v [%s]", err, pv, st)
	}
	o, ok := out.(*zoo.TimeCarrier)
	if !ok {
		return fmt.Sprintf("carrier came back as %T", out)
	}
	if !o.T2.IsZero() {
		return "zero timestamp field did not come back as the zero timestamp"
	}
	chk := func(where string, got time.Time) string {
		if tm.IsZero() {
			if !got.IsZero() {
				return where + ": zero timestamp came back as " + fmtTime(got)
			}
			return ""
		}
		if !timeOK(tm, got) {
			return fmt.Sprintf("%s: %s came back as %s", where, tm.UTC().Format(time.RFC3339Nano), fmtTime(got))
		}
		return ""
	}
	if m := chk("struct field", o.T); m != "" {
		return m
	}
	if len(o.L) != 4 {
		return fmt.Sprintf("[]time.Time of 4 came back with %d elements", len(o.L))
	}
	if m := chk("list element", o.L[1]); m != "" {
		return m
	}
	if m := chk("list element after a zero timestamp", o.L[3]); m != "" {
		return m
	}
	if !o.L[2].IsZero() || !o.L[0].Equal(time.Unix(1, 0)) {
		return "neighbours of the list element changed"
	}
	if m := chk("map value", o.M["a"]); m != "" {
		return m
	}
	if !tm.IsZero() {
		if o.PT1 == nil || o.PT2 == nil || len(o.LP) != 3 || o.LP[0] == nil || o.LP[2] == nil || o.LP[1] != nil {
			return fmt.Sprintf("pointers to the timestamp came back nil / misplaced: %v %v %v", o.PT1, o.PT2, o.LP)
		}
		for _, p := range []*time.Time{o.PT1, o.PT2, o.LP[0], o.LP[2]} {
			if m := chk("pointer to timestamp", *p); m != "" {
				return m
			}
		}
		if o.P1 == nil || o.P1 != o.P2 || o.P1.S != "after-dates" {
			return fmt.Sprintf("the object shared after the timestamps came back as %v / %v", o.P1, o.P2)
		}
	}
	if !tm.IsZero() {
		at, ok := o.A[0].(time.Time)
		if len(o.A) != 2 || !ok {
			return fmt.Sprintf("untyped list element came back as %T", o.A[0])
		}
		if m := chk("untyped list element", at); m != "" {
			return m
		}
	}
	return ""
}

func fmtTime(v interface{}) string {
	if t, ok := v.(time.Time); ok {
		return fmt.Sprintf("%s (unix ms %d)", t.UTC().Format(time.RFC3339Nano), t.UnixMilli())
	}
	return fmt.Sprint(v)
}

func c10Boundaries() []time.Time {
	var out []time.Time
	sec := []int64{0, 1 << 31, -(1 << 31), 1<<31 - 1, 1 << 32, -(1 << 32), 60, 3600, 86400}
	for _, y := range []int{1, 2, 1677, 1678, 1969, 1970, 1971, 2038, 2039, 2262, 2263, 9999} {
		sec = append(sec, time.Date(y, 1, 1, 0, 0, 0, 0, time.UTC).Unix(), time.Date(y, 12, 31, 23, 59, 59, 0, time.UTC).Unix())
	}
	// the int64-nanosecond window
	sec = append(sec, time.Unix(0, -1<<63).Unix(), time.Unix(0, 1<<63-1).Unix())
	for _, s := range sec {
		for _, ds := range []int64{-1, 0, 1} {
			for _, dms := range []int64{-1, 0, 1, 500, 999} {
				t := time.Unix(s+ds, dms*1e6)
				if y := t.UTC().Year(); y >= 1 && y <= 9999 {
					out = append(out, t)
				}
			}
		}
	}
	out = append(out, time.Time{})
	return out
}

func TestC10(t *testing.T) {
	r := rec.For("C10")
	if rc := replayCase(); rc != nil {
		s, _ := caseInt(rc, "unix_s")
		ns, _ := caseInt(rc, "ns")
		tm := time.Unix(s, ns)
		if off, ok := caseInt(rc, "zone_offset_s"); ok {
			tm = tm.In(time.FixedZone("replay", int(off)))
		}
		if z, _ := rc["zero"].(bool); z {
			tm = time.Time{}
		}
		if msg := checkTime(tm); msg != "" {
			t.Fatalf("replay: %s", msg)
		}
		return
	}
	one := func(tm time.Time) {
		if msg := checkTime(tm); msg != "" {
			_, off := tm.Zone()
			directFail(t, "C10", map[string]interface{}{"unix_s": fmt.Sprint(tm.Unix()), "ns": fmt.Sprint(tm.Nanosecond()), "zone_offset_s": fmt.Sprint(off), "zero": tm.IsZero(), "rfc3339": tm.UTC().Format(time.RFC3339Nano)}, "C10 %s (carried in a zone %+d s from UTC): %s", tm.UTC().Format(time.RFC3339Nano), off, msg)
		}
		r.EvalN(5) // five positions
		if tm.Year() < 1970 || tm.Year() >= 2038 || tm.Nanosecond() != 0 {
			r.NonTrivial(av.Hash(fmt.Sprint(tm.Unix(), tm.Nanosecond())))
		}
		r.Sample(func() interface{} {
			return map[string]interface{}{"instant": tm.UTC().Format(time.RFC3339Nano), "unix_ms": tm.UnixMilli()}
		})
	}
	// every boundary instant as a UTC value and carried in zones up to +14 h / -12 h (what the wall clock of the
	// value's own zone shows - another day, another year - is not what is sent)
	bzones := []*time.Location{time.UTC, time.FixedZone("+14", 14*3600), time.FixedZone("-12", -12*3600), time.FixedZone("+02", 2*3600), time.FixedZone("-05", -5*3600), time.FixedZone("+0530", 5*3600+1800)}
	for _, tm := range c10Boundaries() {
		for _, z := range bzones {
			if tm.IsZero() {
				one(tm)
				break
			}
			one(tm.In(z))
		}
	}
	r.Label("boundaries x zones")
	// ---- long messages: 9- and 5-octet dates at every alignment to the decoder's buffer refills
	{
		rs := seedFor("C10stream")
		for pad := 0; pad < 10; pad++ {
			for _, whole := range []bool{false, true} {
				l := make([]time.Time, 1100)
				for i := range l {
					if whole {
						l[i] = time.Unix(int64(int32(rs.next())), 0)
					} else {
						l[i] = time.UnixMilli(minMsC10 + int64(rs.next()%uint64(maxMsC10-minMsC10))).Add(time.Millisecond)
					}
				}
				c := &zoo.TimeCarrier{T: l[0], L: l, M: map[string]time.Time{mkString(0, pad, 0, 0, 1): l[1]}}
				stage, err, plain := roundTrip(c)
				if err != nil {
					directFail(t, "C10", map[string]interface{}{"stream_pad": fmt.Sprint(pad), "whole_seconds": whole}, "C10 list of %d timestamps after %d pad characters: %s: %v", len(l), pad, stage, err)
				}
				if pad == 0 {
					_, nm := hessian.ExtractTypeNameMap(c)
					if nerr := nestedEncode(c, &zoo.TimeCarrier{T: time.UnixMilli(77), L: []time.Time{time.Unix(5, 0), time.UnixMilli(-9)}}, nm, plain); nerr != nil {
						directFail(t, "C10", map[string]interface{}{"stream_pad": "0", "whole_seconds": whole, "nested": true}, "C10 timestamps: %v", nerr)
					}
				}
				r.EvalN(int64(len(l)))
				r.NonTrivial(av.Hash(fmt.Sprint("stream", pad, whole)))
			}
		}
		r.Label("long-messages-across-buffer-refills")
		// lists of every length around and above the decoder's pre-allocation bound, with zero timestamps
		// (carried as null) at drawn positions
		for _, ln := range []int{1, 2, 3, 4, 5, 6, 7, 8, 9, 10, 15, 16, 17, 63, 64, 65, 66, 100, 129, 257, 1025} {
			for rep := 0; rep < 4; rep++ {
				l := make([]time.Time, ln)
				zeros := 0
				for i := range l {
					if rs.next()%5 == 0 || (rep == 0 && i == ln-1) || (rep == 1 && i == 0) {
						zeros++
						continue
					}
					if rep%2 == 0 {
						l[i] = time.Unix(int64(int32(rs.next())), 0)
					} else {
						l[i] = time.UnixMilli(minMsC10 + int64(rs.next()%uint64(maxMsC10-minMsC10)))
					}
				}
				var v interface{} = l
				if rep >= 2 {
					v = &zoo.TimeCarrier{T: time.UnixMilli(5), L: l, T2: time.UnixMilli(6)}
				}
				stage, err, _ := roundTrip(v)
				if err != nil {
					directFail(t, "C10", map[string]interface{}{"list_len": ln, "zero_timestamps": zeros, "in_struct": rep >= 2}, "C10 list of %d timestamps, %d of them the zero timestamp: %s: %v", ln, zeros, stage, err)
				}
				r.EvalN(int64(ln))
				r.NonTrivial(av.Hash(fmt.Sprint("zeros", ln, rep)))
			}
		}
		r.Label("lists-with-zero-timestamps-up-to-1025")
	}
	rng := seedFor("C10")
	n := 30000
	if rec.Thorough() {
		n = 2000000
	}
	span := uint64(maxMsC10 - minMsC10 + 1)
	locs := []*time.Location{time.UTC, time.Local, time.FixedZone("x", 5*3600+1800), time.FixedZone("y", -11*3600)}
	for i := 0; i < n; i++ {
		ms := minMsC10 + int64(rng.next()%span)
		tm := time.UnixMilli(ms)
		switch i % 8 {
		case 1: // finer than a millisecond
			tm = tm.Add(time.Duration(rng.next() % 1e6))
			if tm.Year() > 9999 {
				continue
			}
		case 2: // whole second inside/around the 32-bit seconds window
			tm = time.Unix(int64(int32(rng.next()))+int64(rng.next()%3-1)*(1<<31), 0)
		case 3: // whole minute
			tm = time.Unix(int64(int32(rng.next()))/60*60, 0)
		}
		tm = tm.In(locs[rng.next()%uint64(len(locs))])
		one(tm)
	}
	r.Label("uniform-ms-years-1..9999")
}

var minMsC10 = time.Date(1, 1, 1, 0, 0, 0, 0, time.UTC).UnixMilli()
var maxMsC10 = time.Date(9999, 12, 31, 23, 59, 59, 999e6, time.UTC).UnixMilli()
