package props

import (
	"reflect"
	"runtime"
	"testing"
	"time"
)

// FuzzC14 is an exploratory native fuzz target (not a registered check: native fuzzing can be
// neither seeded nor bounded by case count). Crashers it finds are copied into C14's fixed corpus.
//
//	cd /verif/harness && go test ./props -run '^$' -fuzz '^FuzzC14$' -fuzztime 10m
func FuzzC14(f *testing.F) {
	c14InitMaps()
	for _, b := range c14Fixed() {
		if len(b) < 4096 {
			f.Add(b, uint8(0))
		}
	}
	var ms runtime.MemStats
	f.Fuzz(func(t *testing.T, in []byte, sel uint8) {
		if len(in) > 65536 {
			return
		}
		entry, tmk := int(sel)%len(c14Entries), int(sel/8)%3
		runtime.ReadMemStats(&ms)
		a0 := ms.TotalAlloc
		t0 := time.Now()
		decodeVia(entry, in, c14Maps[tmk]) // a panic or fatal error fails the fuzz run by itself
		dt := time.Since(t0)
		runtime.ReadMemStats(&ms)
		if alloc := ms.TotalAlloc - a0; alloc > uint64(c14AllocBase+c14AllocPerByte*len(in)) {
			t.Fatalf("allocated %d octets for %d input octets (entry %s, %s type map)", alloc, len(in), c14Entries[entry], c14TypeMaps[tmk])
		}
		if dt > 5*time.Second {
			t.Fatalf("%v for %d input octets", dt, len(in))
		}
		_ = reflect.TypeOf
	})
}
