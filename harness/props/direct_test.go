package props

import (
	"encoding/json"
	"fmt"
	"os"
	"strconv"
	"testing"

	"verif/harness/rec"
)

// splitmix64: deterministic bulk sampler for the non-rapid sweeps (each case is
// a single scalar, so the failing value itself is the replay unit).
type splitmix struct{ s uint64 }

func (r *splitmix) next() uint64 {
	r.s += 0x9e3779b97f4a7c15
	z := r.s
	z = (z ^ (z >> 30)) * 0xbf58476d1ce4e5b9
	z = (z ^ (z >> 27)) * 0x94d049bb133111eb
	return z ^ (z >> 31)
}

func seedFor(prop string) *splitmix {
	seed := uint64(rec.EnvInt("VERIF_SEED", 0))
	shard := uint64(rec.EnvInt("VERIF_SHARD", 0))
	h := uint64(1469598103934665603)
	for i := 0; i < len(prop); i++ {
		h = (h ^ uint64(prop[i])) * 1099511628211
	}
	return &splitmix{s: h ^ (seed * 0x9e3779b97f4a7c15) ^ (shard << 48)}
}

func shardInfo() (shard, n int) {
	return rec.EnvInt("VERIF_SHARD", 0), rec.EnvInt("VERIF_NSHARDS", 1)
}

// directFail records a non-rapid failing case and fails the test.
func directFail(t *testing.T, prop string, cs map[string]interface{}, format string, a ...interface{}) {
	t.Helper()
	msg := fmt.Sprintf(format, a...)
	rec.WriteFailure(rec.Failure{Prop: prop, Test: t.Name(), Kind: "direct", Message: msg, Case: cs})
	rec.FlushAll()
	t.Fatalf("%s", msg)
}

// replayCase returns the "case" object of the replay file named by VERIF_REPLAY.
func replayCase() map[string]interface{} {
	p := os.Getenv("VERIF_REPLAY")
	if p == "" {
		return nil
	}
	b, err := os.ReadFile(p)
	if err != nil {
		return nil
	}
	var f struct {
		Case map[string]interface{} `json:"case"`
	}
	if json.Unmarshal(b, &f) != nil {
		return nil
	}
	return f.Case
}

func caseInt(c map[string]interface{}, k string) (int64, bool) {
	s, ok := c[k].(string)
	if !ok {
		return 0, false
	}
	i, err := strconv.ParseInt(s, 10, 64)
	return i, err == nil
}

func caseUint(c map[string]interface{}, k string) (uint64, bool) {
	s, ok := c[k].(string)
	if !ok {
		return 0, false
	}
	i, err := strconv.ParseUint(s, 0, 64)
	return i, err == nil
}
