package props

import (
	"bytes"
	"fmt"
	"reflect"
	"testing"
	"time"

	hessian "github.com/vogo/gohessian"
	"pgregory.net/rapid"

	"verif/harness/av"
	"verif/harness/rec"
	"verif/harness/refcodec"
	"verif/harness/vcmp"
	"verif/harness/zoo"
)

type rapidChoices struct{ rt *rapid.T }

func (c rapidChoices) Choose(n int, what string) int {
	// alternative 0 (canonical) is favoured so that most positions stay canonical
	// and a case differs from the encoder's own rendering in a few places
	if rapid.IntRange(0, 2).Draw(c.rt, "vary?") != 0 {
		return 0
	}
	return rapid.IntRange(0, n-1).Draw(c.rt, what)
}

// harnessBug: the machinery contradicts itself. Never a violation: exit 2.
func harnessBug(t interface{ Fatalf(string, ...interface{}) }, prop, format string, a ...interface{}) {
	msg := fmt.Sprintf(format, a...)
	harnessFailure = "HARNESS SELF-CHECK FAILED: " + msg
	rec.WriteFailure(rec.Failure{Prop: prop, Kind: "harness", Message: harnessFailure})
	t.Fatalf("HARNESS SELF-CHECK FAILED: %s", msg)
}

// the reference encoder may drop or add a container type at statically typed positions
var c03Strict = av.Options{IgnoreListType: true, IgnoreMapType: true, EmptyContainerNull: true, NullEmptyString: true}

// c03One: decode(refEncode(value, choices)) must equal decode(goEncode(value)).
// Returns (nonCanonicalChoices, skipped, failure).
func c03One(v interface{}, ch refcodec.Choices, opt refcodec.EncOptions, tm map[string]reflect.Type, nm map[string]string) (refBytes []byte, nonCanon int, skipped string, failure string, harness string) {
	want, perr := zoo.Project(v, nm)
	if perr != nil {
		return nil, 0, "unrepresentable", "", ""
	}
	var goBytes []byte
	var err error
	var b, a interface{}
	if pv, _ := guard(func() { goBytes, err = hessian.ToBytes(v, copyNames(nm)) }); pv != nil || err != nil {
		return nil, 0, "canonical-encode-fails", "", ""
	}
	if pv, _ := guard(func() { b, err = hessian.ToObject(goBytes, tm) }); pv != nil || err != nil {
		return nil, 0, "canonical-decode-fails", "", ""
	}
	e := refcodec.NewEncoder(ch, opt)
	e.Top(want)
	refBytes = e.W.Bytes()
	// self-check: the reference decoder reads the reference encoding back to the same value
	back, _, derr := refcodec.Decode(refBytes)
	if e.AmbiguousBinary > 0 {
		// the stream holds a 'b' chunk after class #2 was defined, at a typed position: an
		// untyped reading (the reference decoder's) cannot tell it from an instance
	} else if derr != nil {
		return refBytes, e.NonCanonical, "", "", fmt.Sprintf("reference decoder rejects the reference encoding: %v (%s)", derr, hexClip(refBytes, 200))
	}
	if x, y := av.Canon(want, c03Strict), av.Canon(back, c03Strict); e.AmbiguousBinary == 0 && x != y {
		return refBytes, e.NonCanonical, "", "", fmt.Sprintf("reference codec does not round-trip:\n want %s\n  got %s", clipDiff(x, y), clipDiff(y, x))
	}
	if pv, st := guard(func() { a, err = hessian.ToObject(refBytes, tm) }); pv != nil || err != nil {
		return refBytes, e.NonCanonical, "", fmt.Sprintf("a legal encoding is not decoded: %v %v [%s]", err, pv, st), ""
	}
	if cerr := vcmp.EqualValues(b, a); cerr != nil {
		return refBytes, e.NonCanonical, "", fmt.Sprintf("a legal encoding decodes to a different value than the encoder's own rendering: %v", cerr), ""
	}
	// the same octets from a source that delivers one per Read and reports the end together with the last one:
	// full-width numbers, chunk headers and counts then never arrive in one piece
	if len(refBytes) < 1500 {
		var a2 interface{}
		if pv, st := guard(func() {
			a2, err = hessian.NewDecoder(&countingReader{b: refBytes, max: 1, eofWithData: true}, tm).ReadObject()
		}); pv != nil || err != nil {
			return refBytes, e.NonCanonical, "", fmt.Sprintf("a legal encoding is not decoded when its octets arrive one per Read: %v %v [%s]", err, pv, st), ""
		}
		if cerr := vcmp.EqualValues(a, a2); cerr != nil {
			return refBytes, e.NonCanonical, "", fmt.Sprintf("a legal encoding decodes to a different value when its octets arrive one per Read: %v", cerr), ""
		}
	}
	return refBytes, e.NonCanonical, "", "", ""
}

func c03Opt(compact bool, hoist bool, pad int) refcodec.EncOptions {
	return refcodec.EncOptions{CompactDate: compact, HoistAnywhere: hoist, MaxPadding: pad, MaxChunks: 4}
}

// small values whose complete choice tree is enumerated
func c03Small() []interface{} {
	nd := &zoo.Node{Id: 1}
	nd.A = nd
	sh := &zoo.Inner{A: 1, S: "s"}
	return []interface{}{
		int32(0), int32(47), int32(-17), int32(2047), int32(-2049), int32(262143), int32(262144), int32(-1 << 31),
		int64(0), int64(15), int64(-9), int64(2047), int64(-262144), int64(1 << 31), int64(-1<<31 - 1), int64(1 << 40),
		0.0, 1.0, -1.0, 127.0, -129.0, 32767.0, 0.5, 1e10, 3.14,
		true, "", "a", "ab", "é你😀", []byte{}, []byte{1}, []byte{1, 2, 3},
		time.UnixMilli(1234567), time.Unix(1600000020, 0),
		[]int32{}, []int32{1}, []int32{1, 300}, []string{"a", ""}, []interface{}{int32(1), "x"}, [][]int32{{1}, {2}},
		map[string]int32{"a": 1}, map[interface{}]interface{}{int32(1): "x"},
		zoo.Inner{A: 1, S: "x"}, &zoo.Inner{A: -17, S: ""}, zoo.Embedded{Inner: zoo.Inner{A: 1}, X: 2, Y: "y"},
		zoo.Nested{V: zoo.Inner{A: 1}, P: &zoo.Inner{A: 2}},
		zoo.SlI32{L: []int32{1, 2}}, zoo.SlStr{L: []string{"a"}}, zoo.SlPtr{L: []*zoo.Inner{nil, {A: 1}}}, zoo.SlVal{L: []zoo.Inner{{A: 1}}},
		zoo.MpStrI32{M: map[string]int32{"k": 1}}, zoo.MpStrPtr{M: map[string]*zoo.Inner{"k": {A: 1}}},
		zoo.SlSlI32{L: [][]int32{{1}}}, zoo.Scalars{I8: 1, U64: 1 << 63, F32: 0.5, S: "s", Bin: []byte{1}},
		nd, zoo.SlPtr{L: []*zoo.Inner{sh, sh}}, zoo.ManyL{Items: []interface{}{&zoo.K00{A: 1}, &zoo.K01{A: "x"}, &zoo.K02{A: 2}}},
		zoo.NMapHolder{T: "t", M: zoo.NMap{"a": {A: 1, B: "b"}}}, zoo.CN2{X: zoo.CN1{A: 1}, L: []zoo.CN1{{A: 2}}},
		zoo.AnyList{N: 1, L: []interface{}{[]int32{1}, []int32{2}}},
	}
}

func TestC03(t *testing.T) {
	r := rec.For("C03")
	compact := !openShape("C03", "date-compact-choice")
	if !compact {
		// open finding: run its witness once
		v := time.Unix(1600000020, 0) // a whole minute
		_, _, _, failure, _ := c03One(v, &refcodec.Recorded{In: []int{1}}, c03Opt(true, false, 0), nil, nil)
		if failure != "" {
			r.Known("KF-DATE-COMPACT the compact date form x4b (minutes since the epoch) is read as seconds: the legal encoding 4b 01 96 e6 ab of 2020-09-13T12:27:00Z decodes to 1970-11-05T15:24:27Z (witness time.Unix(1600000020,0), compact form)")
		}
	}
	// ---------------- exhaustive choice trees of small values
	leafCap := 1500
	if rec.Thorough() {
		leafCap = 40000
	}
	shard, nshards := shardInfo()
	for vi, v := range c03Small() {
		if vi%nshards != shard {
			continue
		}
		tm, nm := hessian.ExtractTypeNameMap(v)
		var in []int
		leaves := 0
		truncated := false
		for {
			rc := &refcodec.Recorded{In: in}
			r.Current(fmt.Sprintf("C03 exhaustive %s choices=%v", zoo.Describe(v, 200), in))
			refBytes, nonCanon, skipped, failure, harness := c03One(v, rc, c03Opt(compact, true, 1), tm, nm)
			if harness != "" {
				harnessBug(t, "C03", "%s; value %s choices %v", harness, zoo.Describe(v, 200), rc.Taken)
			}
			if skipped != "" {
				r.Label("skipped:" + skipped)
				break
			}
			leaves++
			r.Eval()
			if nonCanon > 0 {
				r.NonTrivial(av.Hash(fmt.Sprintf("%d/%x", vi, refBytes)))
			}
			if failure != "" {
				directFail(t, "C03", map[string]interface{}{"small_value_index": fmt.Sprint(vi), "value": zoo.Describe(v, 300), "choices": fmt.Sprint(rc.Taken), "choice_labels": fmt.Sprint(rc.Labels), "bytes": hexClip(refBytes, 400)},
					"C03 %s, encoding choices %v: %s\n bytes: %s", zoo.Describe(v, 200), labelled(rc), failure, hexClip(refBytes, 200))
			}
			if leaves <= 2 || leaves&(leaves-1) == 0 {
				r.Sample(func() interface{} {
					return map[string]interface{}{"value": zoo.Describe(v, 120), "choices": labelled(rc), "bytes": hexClip(refBytes, 60), "mode": "exhaustive"}
				})
			}
			next, ok := refcodec.NextOdometer(rc)
			if !ok {
				break
			}
			if leaves >= leafCap {
				truncated = true
				break
			}
			in = next
		}
		if truncated {
			r.Label("exhaustive:truncated-at-cap")
		} else {
			r.Label("exhaustive:complete-tree")
		}
		r.LabelN("exhaustive:leaves", int64(leaves))
	}
	// ---------------- chunks at the 16-bit limit: a 70 000-character string and a 70 000-octet
	// binary need at least two chunks, the first of 65 535 units
	if shard == 0 {
		for _, v := range []interface{}{
			&zoo.StrCarrier{S: mkString(0, 70000, 0, 0, 5), L: []string{"after"}},
			&zoo.StrCarrier{S: mkString(2, 66000, 0, 0, 6), MK: map[string]int32{"k": 1}},
			&zoo.BinCarrier{B: mkBytes(70000, 7), L: [][]byte{{1, 2}}},
		} {
			tm, nm := hessian.ExtractTypeNameMap(v)
			for _, in := range [][]int{nil, {0, 0, 0, 0, 1, 3}, {0, 0, 0, 0, 3, 100, 60000, 2}} {
				rc := &refcodec.Recorded{In: in}
				refBytes, _, skipped, failure, harness := c03One(v, rc, c03Opt(compact, false, 0), tm, nm)
				if harness != "" {
					harnessBug(t, "C03", "%s (64 KiB chunk case)", harness)
				}
				if skipped == "" && failure != "" {
					directFail(t, "C03", map[string]interface{}{"value": zoo.Describe(v, 100), "choices": fmt.Sprint(rc.Taken)}, "C03 %T with a 65 535-unit chunk, choices %v: %s (%d octets)", v, labelled(rc), failure, len(refBytes))
				}
				r.Eval()
				r.NonTrivial(av.Hash(fmt.Sprintf("64k/%T/%v", v, in)))
			}
		}
		r.Label("chunks-at-16-bit-limit")
	}
	// ---------------- a map without entries, written as a map (what every writer but the Go encoder does), and a
	// reference to it from a destination of another map type
	if shard == 0 {
		tm, nm := hessian.ExtractTypeNameMap([]interface{}{&zoo.MpStrI32{}, &zoo.MpStrStr{}, zoo.PlainMap{"k": 1}})
		def := "C\x08MpStrI32\x91\x01m"
		for i, cse := range []struct {
			what string
			b    string
			want interface{}
		}{
			{"list{empty map, object whose map field refers to it}", "\x57HZ" + def + "\x60\x51\x91Z",
				[]interface{}{map[interface{}]interface{}{}, &zoo.MpStrI32{}}},
			{"list{empty typed map, object whose map field refers to it, the reference again}", "\x57M\x08PlainMapZ" + def + "\x60\x51\x91\x51\x91Z",
				[]interface{}{zoo.PlainMap{}, &zoo.MpStrI32{}, zoo.PlainMap{}}},
			{"map{a: empty map, b: object whose map field refers to it}", "H\x01aHZ\x01b" + def + "\x60\x51\x91Z",
				map[interface{}]interface{}{"a": map[interface{}]interface{}{}, "b": &zoo.MpStrI32{}}},
			{"list{map of one entry, empty map, objects referring to both}", "\x57H\x01k\x95ZHZ" + def + "\x60\x51\x91\x60\x51\x92Z",
				[]interface{}{map[interface{}]interface{}{"k": int32(5)}, map[interface{}]interface{}{}, &zoo.MpStrI32{M: map[string]int32{"k": 5}}, &zoo.MpStrI32{}}},
		} {
			b := []byte(cse.b)
			if _, _, derr := refcodec.Decode(b); derr != nil {
				harnessBug(t, "C03", "empty-map case %d is not well-formed: %v", i, derr)
			}
			var out interface{}
			var err error
			if pv, st := guard(func() { out, err = hessian.ToObject(b, tm) }); pv != nil || err != nil {
				directFail(t, "C03", map[string]interface{}{"bytes": hexClip(b, 200), "what": cse.what}, "C03 %s (%x): %v %v [%s]", cse.what, b, err, pv, st)
			} else if cerr := vcmp.Equal(cse.want, out, nm); cerr != nil {
				directFail(t, "C03", map[string]interface{}{"bytes": hexClip(b, 200), "what": cse.what}, "C03 %s (%x): %v", cse.what, b, cerr)
			}
			r.Eval()
			r.NonTrivial(av.Hash("emptymapref/" + cse.what))
		}
		r.Label("references-to-a-map-without-entries")
	}
	// ---------------- byte arrays in the two-octet length form [x34-x37] b0 (what Java writes for 16..1023 octets):
	// every length 0..1023 at top level, as a list element, as a map value, as the []byte field of an object and
	// as the final chunk behind an 'A' chunk (§5 #41)
	if shard == 0 {
		tm, _ := hessian.ExtractTypeNameMap(&zoo.BinCarrier{})
		for l := 0; l <= 1023; l++ {
			data := make([]byte, l)
			for i := range data {
				data[i] = byte(i*7 + l)
			}
			form := append([]byte{byte(0x34 + l>>8), byte(l)}, data...)
			cases := []struct {
				what string
				b    []byte
				pick func(interface{}) interface{}
				want []byte
			}{
				{"top level", form, func(v interface{}) interface{} { return v }, data},
				{"list element", append(append([]byte{0x57, 0x91}, form...), 'Z'), func(v interface{}) interface{} {
					if l, ok := v.([]interface{}); ok && len(l) == 2 {
						return l[1]
					}
					return v
				}, data},
				{"map value", append(append([]byte{'H', 0x01, 'k'}, form...), 'Z'), func(v interface{}) interface{} {
					if m, ok := v.(map[interface{}]interface{}); ok && len(m) == 1 {
						return m["k"]
					}
					return v
				}, data},
				{"[]byte field of an object", append([]byte("C\x0aBinCarrier\x91\x01b\x60"), form...), func(v interface{}) interface{} {
					if p, ok := v.(*zoo.BinCarrier); ok && p != nil {
						return p.B
					}
					return v
				}, data},
				{"final chunk behind an 'A' chunk", append([]byte{'A', 0, 2, 0xaa, 0xbb}, form...), func(v interface{}) interface{} { return v }, append([]byte{0xaa, 0xbb}, data...)},
			}
			for _, cse := range cases {
				if _, _, derr := refcodec.Decode(cse.b); derr != nil {
					harnessBug(t, "C03", "two-octet binary form, length %d, %s: not well-formed: %v", l, cse.what, derr)
				}
				var out interface{}
				var err error
				pv, st := guard(func() { out, err = hessian.ToObject(cse.b, tm) })
				if pv == nil && err == nil {
					got, ok := cse.pick(out).([]byte)
					if !ok && len(cse.want) == 0 && cse.pick(out) == nil {
						ok = true // nil and empty are identified
					}
					if ok && bytes.Equal(got, cse.want) {
						r.Eval()
						continue
					}
					err = fmt.Errorf("decoded to %T of %d octets", cse.pick(out), len(got))
				}
				directFail(t, "C03", map[string]interface{}{"bytes": hexClip(cse.b, 200), "what": cse.what, "length": l}, "C03 byte array of %d octets in the form [x34-x37] b0, %s (%s): %v %v [%s]", l, cse.what, hexClip(cse.b, 24), err, pv, st)
			}
			r.NonTrivial(av.Hash(fmt.Sprintf("bin-two-octet/%d", l)))
		}
		r.Label("binary-two-octet-length-form")
	}
	// ---------------- random values x random choices
	cfg := zoo.DefaultCfg()
	cfg.MaxBig, cfg.Budget, cfg.NoBigStrings = 40, 200, true
	check(t, "C03", func(rt *rapid.T, c *caseInfo) {
		g := zoo.NewG(rt, cfg)
		v, shape := g.Top()
		if rapid.IntRange(0, 19).Draw(rt, "large") == 0 {
			// chunks longer than the decoder's usual buffer, in any order of sizes
			n := rapid.IntRange(4097, 12000).Draw(rt, "largeLen")
			if rapid.Bool().Draw(rt, "largeString") {
				v, shape = &zoo.StrCarrier{S: mkString(rapid.IntRange(0, 4).Draw(rt, "largeClass"), n, 0, 0, uint64(n)), L: []string{"a", mkString(0, n/2, 0, 0, 1)}}, "ptr:StrCarrier(large)"
			} else {
				v, shape = &zoo.BinCarrier{B: mkBytes(n, uint64(n)), L: [][]byte{mkBytes(n/3, 2), {1}}, A: []interface{}{mkBytes(n-1, 3)}}, "ptr:BinCarrier(large)"
			}
		}
		tm, nm := hessian.ExtractTypeNameMap(v)
		hoist := rapid.Bool().Draw(rt, "hoistAnywhere")
		pad := rapid.SampledFrom([]int{0, 0, 1, 3, 17}).Draw(rt, "maxPadding")
		desc := zoo.Describe(v, 400)
		c.set("shape", shape)
		c.set("value", desc)
		r.Current("C03 " + shape + " " + desc)
		rc := &recordingChoices{inner: rapidChoices{rt}}
		opt := c03Opt(compact, hoist, pad)
		if rapid.IntRange(0, 3).Draw(rt, "draftBinaryChunkTag") == 0 {
			opt.BinChunkTag = 'b' // the draft's tag: legal only where it cannot be an instance of class #2
		}
		refBytes, nonCanon, skipped, failure, harness := c03One(v, rc, opt, tm, nm)
		if harness != "" {
			harnessBug(rt, "C03", "%s; value %s", harness, desc)
		}
		if skipped != "" {
			r.Label("skipped:" + skipped)
			rt.Skip(skipped)
		}
		r.Eval()
		if nonCanon > 0 {
			r.NonTrivial(av.Hash(shape + fmt.Sprintf("%x", refBytes)))
		}
		for _, l := range rc.nonCanonLabels {
			r.Label("varied:" + l)
		}
		r.Sample(func() interface{} {
			return map[string]interface{}{"shape": shape, "value": zoo.Describe(v, 160), "non_canonical_choices": rc.nonCanonLabels, "bytes": hexClip(refBytes, 60), "mode": "random"}
		})
		if failure != "" {
			c.set("bytes", hexClip(refBytes, 2000))
			c.set("non_canonical_choices", rc.nonCanonLabels)
			failf(rt, c, "C03 %s: %s\n non-canonical choices: %v\n value: %s\n bytes: %s", shape, failure, rc.nonCanonLabels, desc, hexClip(refBytes, 300))
		}
	})
}

type recordingChoices struct {
	inner          refcodec.Choices
	nonCanonLabels []string
}

func (r *recordingChoices) Choose(n int, what string) int {
	c := r.inner.Choose(n, what)
	if c != 0 && len(r.nonCanonLabels) < 40 {
		r.nonCanonLabels = append(r.nonCanonLabels, fmt.Sprintf("%s=%d/%d", what, c, n))
	}
	return c
}

func labelled(rc *refcodec.Recorded) []string {
	var out []string
	for i, c := range rc.Taken {
		if c != 0 {
			out = append(out, fmt.Sprintf("%s=%d/%d", rc.Labels[i], c, rc.Arities[i]))
		}
	}
	return out
}
