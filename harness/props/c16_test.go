package props

import (
	"fmt"
	"reflect"
	"sort"
	"testing"

	hessian "github.com/vogo/gohessian"
	"pgregory.net/rapid"

	"verif/harness/av"
	"verif/harness/rec"
	"verif/harness/vcmp"
	"verif/harness/zoo"
	"verif/harness/zoo/twin"
)

// reach is the independent type walk: every struct type, slice type and named
// map type a value of type t can contain through fields, elements, keys, values
// and pointers. Interface slots contribute nothing static.
type reach struct {
	structs, slices, maps []reflect.Type
	hasIface              bool
	seen                  map[reflect.Type]bool
}

func (r *reach) walk(t reflect.Type) {
	if r.seen[t] {
		return
	}
	r.seen[t] = true
	switch t.Kind() {
	case reflect.Ptr:
		r.walk(t.Elem())
	case reflect.Slice:
		if t == zoo.BytesType {
			return // binary; a slice of a named octet type or a named byte slice is a list like any other
		}
		r.slices = append(r.slices, t)
		r.walk(t.Elem())
	case reflect.Map:
		if t.Name() != "" {
			r.maps = append(r.maps, t)
		}
		r.walk(t.Key())
		r.walk(t.Elem())
	case reflect.Struct:
		if t == zoo.TimeType {
			return
		}
		r.structs = append(r.structs, t)
		for i := 0; i < t.NumField(); i++ {
			r.walk(t.Field(i).Type)
		}
	case reflect.Interface:
		r.hasIface = true
	}
}

func reachable(t reflect.Type) *reach {
	r := &reach{seen: map[reflect.Type]bool{}}
	r.walk(t)
	return r
}

var codecNamable = reflect.TypeOf((*hessian.CodecNamable)(nil)).Elem()

// declaredWireName: the wire name a type DECLARES with HessianCodecName. A struct that embeds a custom-named
// struct has the method by promotion only (it answers with the embedded type's name, or cannot be called at
// all through a nil embedded pointer): it declares none and keeps its Go name.
func declaredWireName(t reflect.Type) (name string, ok bool) {
	if !t.Implements(codecNamable) {
		return "", false
	}
	defer func() {
		if recover() != nil {
			name, ok = "", false
		}
	}()
	name = reflect.Zero(t).Interface().(hessian.CodecNamable).HessianCodecName()
	if t.Kind() == reflect.Struct {
		for i := 0; i < t.NumField(); i++ {
			f := t.Field(i)
			ft := f.Type
			if ft.Kind() == reflect.Ptr {
				ft = ft.Elem()
			}
			if f.Anonymous && ft.Implements(codecNamable) {
				if en, eok := declaredWireName(ft); eok && en == name {
					return "", false
				}
			}
		}
	}
	return name, true
}

// closed checks closure and mutual consistency of (tm, nm) for type t.
func closed(t reflect.Type, tm map[string]reflect.Type, nm map[string]string) string {
	rc := reachable(t)
	for _, st := range rc.structs {
		wire, ok := nm[st.Name()]
		if !ok {
			return fmt.Sprintf("name map has no entry for struct type %v (key %q)", st, st.Name())
		}
		if want, declares := declaredWireName(st); declares {
			if wire != want {
				return fmt.Sprintf("name map gives %v the wire name %q, its HessianCodecName is %q", st, wire, want)
			}
		} else if wire != st.Name() && st.Implements(codecNamable) {
			return fmt.Sprintf("name map gives %v the wire name %q: it declares none of its own (HessianCodecName is promoted from an embedded struct)", st, wire)
		}
		if got, ok := tm[wire]; !ok || got != st {
			return fmt.Sprintf("type map does not map wire name %q back to %v (got %v)", wire, st, got)
		}
	}
	for _, mt := range rc.maps {
		wire, ok := nm[mt.Name()]
		if !ok {
			return fmt.Sprintf("name map has no entry for named map type %v", mt)
		}
		if mt.Implements(codecNamable) {
			want := reflect.Zero(mt).Interface().(hessian.CodecNamable).HessianCodecName()
			if wire != want {
				return fmt.Sprintf("name map gives %v the wire name %q, its HessianCodecName is %q", mt, wire, want)
			}
		}
		if got, ok := tm[wire]; !ok || got != mt {
			return fmt.Sprintf("type map does not map wire name %q back to %v (got %v)", wire, mt, got)
		}
	}
	for _, sl := range rc.slices {
		key := zoo.TypeName(sl)
		wire, ok := nm[key]
		if !ok {
			if rootIface(sl) {
				continue // written untyped whatever the map says
			}
			return fmt.Sprintf("name map has no entry for slice type %v (key %q)", sl, key)
		}
		got, ok := tm[wire]
		if !ok || got.Kind() != reflect.Slice {
			return fmt.Sprintf("type map does not map list type name %q (of %v) to a slice type (got %v)", wire, sl, got)
		}
		// []T and []*T share one wire name: the type map then holds one of the two. Nothing else may be
		// conflated (a []int16 that comes back through []int32 is another Go type)
		if got != sl && (nm[zoo.TypeName(got)] != wire || !samePointerFree(got, sl)) {
			return fmt.Sprintf("type map maps list type name %q (of %v) to %v (wire name %q): not the same Go type, and not its []T / []*T twin", wire, sl, got, nm[zoo.TypeName(got)])
		}
	}
	return ""
}

// samePointerFree: the two slice types differ at most in pointers ([]T / []*T / [][]*T ...).
func samePointerFree(a, b reflect.Type) bool {
	for i := 0; i < 64; i++ {
		for a.Kind() == reflect.Ptr {
			a = a.Elem()
		}
		for b.Kind() == reflect.Ptr {
			b = b.Elem()
		}
		if a.Kind() != reflect.Slice || b.Kind() != reflect.Slice || a.Name() != "" || b.Name() != "" {
			return a == b
		}
		a, b = a.Elem(), b.Elem()
	}
	return false
}

func rootIface(t reflect.Type) bool {
	for i := 0; i < 64 && (t.Kind() == reflect.Slice || t.Kind() == reflect.Ptr); i++ {
		t = t.Elem()
	}
	return t.Kind() == reflect.Interface
}

// roundTripWith: C01's oracle with caller-supplied maps.
func roundTripWith(v interface{}, tm map[string]reflect.Type, nm map[string]string) error {
	var b []byte
	var err error
	var out interface{}
	if pv, st := guard(func() { b, err = hessian.ToBytes(v, nm) }); pv != nil || err != nil {
		return fmt.Errorf("encode: %v %v [%s]", err, pv, st)
	}
	if pv, st := guard(func() { out, err = hessian.ToObject(b, tm) }); pv != nil || err != nil {
		return fmt.Errorf("decode: %v %v [%s]", err, pv, st)
	}
	return vcmp.Equal(v, out, nm)
}

var c16Types []reflect.Type

// c16InPlace: named struct types that are reachable only through a field declared as an in-place struct
// (TypeMapOf only: what name such a struct itself travels under is not demanded)
type c16InPlace struct {
	N    int32
	Data struct {
		Items  []*zoo.Inner
		Cursor *zoo.K00
	}
	P *zoo.K01
}

func init() {
	c16Types = append(c16Types, zoo.StructTypes...)
	c16Types = append(c16Types, zoo.T(zoo.Tree{}), zoo.T(zoo.JMap{}), zoo.T(zoo.StrCarrier{}), zoo.T(zoo.TimeCarrier{}), zoo.T(zoo.IntLists{}), zoo.T(zoo.IntMapVals{}), zoo.T(zoo.FloatFields{}))
	// same unqualified names as zoo.Inner / zoo.Nested / zoo.Scalars, other layouts
	c16Types = append(c16Types, zoo.T(twin.Inner{}), zoo.T(twin.Nested{}), zoo.T(twin.Scalars{}), zoo.T(twin.Inner{}), zoo.T(twin.Nested{}), zoo.T(twin.Scalars{}))
}

// deepChain builds a chain of n SelfAny links; the link at depth `at` (0-based) carries in its interface
// payload the only value of class `only` in the whole graph.
func deepChain(n, at int, only reflect.Type) *zoo.SelfAny {
	head := &zoo.SelfAny{N: 0}
	cur := head
	for i := 1; i < n; i++ {
		cur.Next = &zoo.SelfAny{N: int32(i)}
		if i%97 == 0 && cur.X == nil {
			cur.X = []interface{}{int32(i), "filler"}
		}
		cur = cur.Next
		if i == at {
			cur.X = []interface{}{"payload", reflect.New(only).Interface()}
		}
	}
	if at == 0 {
		head.X = []interface{}{"payload", reflect.New(only).Interface()}
	}
	return head
}

// checkDeepChain: the maps extracted from a deep chain name the class that occurs only far down, and carry the chain.
func checkDeepChain(n, at int, only reflect.Type) string {
	chain := deepChain(n, at, only)
	var tm map[string]reflect.Type
	var nm map[string]string
	if pv, st := guard(func() { tm, nm = hessian.ExtractTypeNameMap(chain) }); pv != nil {
		return fmt.Sprintf("ExtractTypeNameMap panicked: %v [%s]", pv, st)
	}
	wire, ok := nm[only.Name()]
	if !ok {
		return fmt.Sprintf("name map has no entry for %v, held by the interface payload of link %d", only, at)
	}
	if got := tm[wire]; got != only {
		return fmt.Sprintf("type map does not map %q back to %v, held by the interface payload of link %d (got %v)", wire, only, at, got)
	}
	var b []byte
	var err error
	var out interface{}
	if pv, st := guard(func() { b, err = hessian.ToBytes(chain, nm) }); pv != nil || err != nil {
		return fmt.Sprintf("encode with the extracted name map: %v %v [%s]", err, pv, st)
	}
	if pv, st := guard(func() { out, err = hessian.ToObject(b, tm) }); pv != nil || err != nil {
		return fmt.Sprintf("decode with the extracted type map: %v %v [%s]", err, pv, st)
	}
	// walk the decoded chain (no recursion) down to the payload
	cur, _ := out.(*zoo.SelfAny)
	for i := 0; i < at && cur != nil; i++ {
		cur = cur.Next
	}
	if cur == nil || len(cur.X) != 2 || reflect.TypeOf(cur.X[1]) != reflect.PtrTo(only) {
		var got interface{}
		if cur != nil && len(cur.X) == 2 {
			got = cur.X[1]
		}
		return fmt.Sprintf("decoded chain: link %d does not hold a %v (got %T)", at, reflect.PtrTo(only), got)
	}
	return ""
}

func mapKeys(m map[string]reflect.Type) []string {
	out := make([]string, 0, len(m))
	for k := range m {
		out = append(out, k)
	}
	sort.Strings(out)
	return out
}

func TestC16(t *testing.T) {
	r := rec.For("C16")
	// witness of a repaired defect: a type whose HessianCodecName returns "" (extraction panicked: index out of
	// range). The extraction returns, by value and by pointer, from a zero and a populated witness, and a
	// populated value round-trips with the maps
	for i, w := range []interface{}{zoo.EmptyNamed{}, &zoo.EmptyNamed{A: 1, L: []int32{2}}, &zoo.EmptyNamedHolder{}, &zoo.EmptyNamedHolder{X: &zoo.EmptyNamed{A: 3, L: []int32{1}}, M: map[string]int32{"k": 1}}} {
		var tm map[string]reflect.Type
		var nm map[string]string
		var tmo map[string]reflect.Type
		pv, st := guard(func() {
			tm, nm = hessian.ExtractTypeNameMap(w)
			tmo = hessian.TypeMapOf(reflect.TypeOf(w))
		})
		msg := ""
		if pv != nil {
			msg = fmt.Sprintf("panic: %v [%s]", pv, st)
		} else {
			for k, v := range nm {
				if k == "" || v == "" {
					msg = fmt.Sprintf("the name map holds an empty name: %q -> %q", k, v)
				}
			}
			if _, ok := tmo[""]; ok {
				msg = "TypeMapOf holds an entry for the empty name"
			}
			v := &zoo.EmptyNamedHolder{X: &zoo.EmptyNamed{A: 7, L: []int32{1, 2}}, M: map[string]int32{"a": 1}}
			if i >= 2 && msg == "" {
				b, err := hessian.ToBytes(v, copyNames(nm))
				var out interface{}
				if err == nil {
					out, err = hessian.ToObject(b, tm)
				}
				if err != nil {
					msg = fmt.Sprintf("a value does not round-trip with the extracted maps: %v", err)
				} else if cerr := vcmp.Equal(v, out, nm); cerr != nil {
					msg = "a value round-trips to something else: " + cerr.Error()
				}
			}
		}
		if msg != "" {
			directFail(t, "C16", map[string]interface{}{"witness": fmt.Sprintf("%T #%d", w, i)}, "C16 a type whose HessianCodecName returns the empty string (%T): %s", w, msg)
		}
		r.Eval()
		r.NonTrivial(av.Hash(fmt.Sprintf("empty-name/%d", i)))
		r.Label("type declaring the empty string as its wire name")
	}
	// ---- TypeMapOf on every type: terminates (process death is caught by the
	// driver through the recorder), and holds every reachable struct type
	for _, typ := range append(append([]reflect.Type{}, c16Types...), zoo.T(c16InPlace{})) {
		for _, tt := range []reflect.Type{typ, reflect.PtrTo(typ), reflect.SliceOf(typ), reflect.MapOf(reflect.TypeOf(""), reflect.PtrTo(typ))} {
			r.Current("C16 TypeMapOf(" + tt.String() + ")")
			var tm map[string]reflect.Type
			if pv, st := guard(func() { tm = hessian.TypeMapOf(tt) }); pv != nil {
				directFail(t, "C16", map[string]interface{}{"type": tt.String(), "entry": "TypeMapOf"}, "C16 TypeMapOf(%v) panicked: %v [%s]", tt, pv, st)
			}
			// the returned map belongs to the caller: scribbling over it must not show in a later call
			keys := mapKeys(tm)
			for _, k := range keys {
				tm["alias."+k] = reflect.TypeOf(0)
				tm[k] = reflect.TypeOf("")
			}
			tm = hessian.TypeMapOf(tt)
			if len(tm) != len(keys) {
				directFail(t, "C16", map[string]interface{}{"type": tt.String(), "entry": "TypeMapOf"}, "C16 TypeMapOf(%v): a second call returned %d entries, the first %d: the caller's changes to the first result leaked into it", tt, len(tm), len(keys))
			}
			for _, st := range reachable(tt).structs {
				if st.Name() == "" {
					continue
				}
				if wire, declares := declaredWireName(st); declares {
					if got, ok := tm[wire]; !ok || got != st {
						directFail(t, "C16", map[string]interface{}{"type": tt.String(), "entry": "TypeMapOf"}, "C16 TypeMapOf(%v) does not map the wire name %q back to %v (has %v)", tt, wire, st, mapKeys(tm))
					}
				}
				if got, ok := tm[st.Name()]; !ok || got != st {
					directFail(t, "C16", map[string]interface{}{"type": tt.String(), "entry": "TypeMapOf"}, "C16 TypeMapOf(%v) lacks reachable struct type %v (has %v)", tt, st, mapKeys(tm))
				}
			}
			r.Eval()
		}
	}
	// ---- slots of a named interface type: the dynamic types of later values of a known type count too
	for i, w := range []*zoo.Drawing{
		{Layers: []zoo.Layer{{Shapes: []zoo.Shape{zoo.Circle{R: 1}}}, {Shapes: []zoo.Shape{zoo.Square{S: 2}}}}},
		{Layers: []zoo.Layer{{Shapes: []zoo.Shape{zoo.Circle{R: 1}}}, {ByName: map[string]zoo.Shape{"t": &zoo.Triangle{A: 1}}}}, Top: &zoo.Layer{Shapes: []zoo.Shape{zoo.Square{S: 3}}}},
		{Top: &zoo.Layer{ByName: map[string]zoo.Shape{"c": zoo.Circle{R: 2}}}, Layers: []zoo.Layer{{}, {Shapes: []zoo.Shape{&zoo.Triangle{B: 2}, zoo.Square{S: 1}}}}},
	} {
		r.Current(fmt.Sprintf("C16 named interface slots, witness %d", i))
		var tm map[string]reflect.Type
		var nm map[string]string
		if pv, st := guard(func() { tm, nm = hessian.ExtractTypeNameMap(w) }); pv != nil {
			directFail(t, "C16", map[string]interface{}{"entry": "ExtractTypeNameMap", "witness": "Drawing", "index": i}, "C16 ExtractTypeNameMap(Drawing #%d) panicked: %v [%s]", i, pv, st)
		}
		var held []reflect.Type
		for _, l := range append(append([]zoo.Layer{}, w.Layers...), func() []zoo.Layer {
			if w.Top != nil {
				return []zoo.Layer{*w.Top}
			}
			return nil
		}()...) {
			for _, s := range l.Shapes {
				held = append(held, reflect.TypeOf(s))
			}
			for _, s := range l.ByName {
				held = append(held, reflect.TypeOf(s))
			}
		}
		for _, ht := range held {
			st := ht
			if st.Kind() == reflect.Ptr {
				st = st.Elem()
			}
			wire, ok := nm[st.Name()]
			if want, declares := declaredWireName(st); ok && declares && wire != want {
				ok = false
			}
			if got := tm[wire]; !ok || got != st {
				directFail(t, "C16", map[string]interface{}{"entry": "ExtractTypeNameMap", "witness": "Drawing", "index": i}, "C16 a Drawing holds a %v in a slot of the named interface type Shape: the extracted maps do not name it (name map entry %q, type map gives %v)", ht, wire, got)
			}
		}
		var b []byte
		var err error
		if pv, st := guard(func() {
			if b, err = hessian.ToBytes(w, copyNames(nm)); err == nil {
				_, err = hessian.ToObject(b, tm)
			}
		}); pv != nil || err != nil {
			directFail(t, "C16", map[string]interface{}{"entry": "ExtractTypeNameMap", "witness": "Drawing", "index": i}, "C16 the maps extracted from a Drawing do not carry it: %v %v [%s]", err, pv, st)
		}
		r.Eval()
		r.NonTrivial(av.Hash(fmt.Sprint("named-iface", i)))
		r.Label("named interface slots")
	}
	// ---- deep values: a class that occurs only far down a chain through interface slots
	{
		rng := seedFor("C16deep")
		for i := 0; i < rec.EnvInt("VERIF_C16_DEEP", 12); i++ {
			n := []int{300, 520, 700, 1100, 1500}[rng.next()%5]
			at := int(rng.next() % uint64(n))
			if i%2 == 0 {
				at = n - 1 - int(rng.next()%8)
			}
			only := zoo.KTypes[rng.next()%uint64(len(zoo.KTypes))]
			r.Current(fmt.Sprintf("C16 deep chain n=%d at=%d %v", n, at, only))
			if msg := checkDeepChain(n, at, only); msg != "" {
				directFail(t, "C16", map[string]interface{}{"entry": "ExtractTypeNameMap", "chain_links": n, "payload_at": at, "class": only.String()}, "C16 chain of %d links, class %v only at link %d: %s", n, only, at, msg)
			}
			r.Eval()
			r.NonTrivial(av.Hash(fmt.Sprint("deep", n, at, only)))
			r.Label(fmt.Sprintf("deep chain: payload class below depth %s", map[bool]string{true: "512", false: "<=512"}[at > 512]))
		}
	}
	cfgs := map[string]zoo.Cfg{}
	full := zoo.DefaultCfg()
	full.MaxBig, full.Budget, full.NoBigStrings = 20, 200, true
	cfgs["populated"] = full
	sparse := full
	sparse.Small, sparse.MaxBig, sparse.Budget = 1, 1, 6
	cfgs["sparse"] = sparse
	check(t, "C16", func(rt *rapid.T, c *caseInfo) {
		typ := c16Types[rapid.IntRange(0, len(c16Types)-1).Draw(rt, "type")]
		fill := rapid.SampledFrom([]string{"zero", "zero", "sparse", "populated", "nil-pointer"}).Draw(rt, "fill")
		byPtr := rapid.Bool().Draw(rt, "byPointer")
		var w reflect.Value // *T
		switch fill {
		case "zero", "nil-pointer":
			w = reflect.New(typ)
		default:
			g := zoo.NewG(rt, cfgs[fill])
			w = reflect.New(typ)
			w.Elem().Set(g.Value(typ))
		}
		witness := w.Interface()
		if !byPtr || typ.Kind() != reflect.Struct {
			witness = w.Elem().Interface()
		}
		if fill == "nil-pointer" {
			// the emptiest witness of a type: a typed nil pointer
			if typ.Kind() != reflect.Struct {
				rt.Skip("a nil pointer witness is used for struct types")
			}
			witness = reflect.Zero(reflect.PtrTo(typ)).Interface()
		}
		c.set("type", typ.String())
		c.set("fill", fill)
		c.set("witness", zoo.Describe(witness, 300))
		r.Current(fmt.Sprintf("C16 extract %s fill=%s ptr=%v %s", typ.Name(), fill, byPtr, zoo.Describe(witness, 200)))
		var tm map[string]reflect.Type
		var nm map[string]string
		if pv, st := guard(func() { tm, nm = hessian.ExtractTypeNameMap(witness) }); pv != nil {
			failf(rt, c, "C16 ExtractTypeNameMap(%s, %s) panicked: %v [%s]", typ.Name(), fill, pv, st)
		}
		if msg := closed(typ, tm, nm); msg != "" {
			failf(rt, c, "C16 maps extracted from a %s witness of %s are not closed/consistent: %s\n witness: %s", fill, typ.Name(), msg, zoo.Describe(witness, 300))
		}
		// the two single-map entry points agree with the pair (and a caller may do what it likes
		// with maps it was handed earlier)
		scribbleT, scribbleN := hessian.ExtractTypeNameMap(witness)
		for k := range scribbleT {
			scribbleT[k] = reflect.TypeOf(0)
		}
		for k := range scribbleN {
			scribbleN[k] = "scribbled"
		}
		tm2, nm2 := hessian.TypeMapFrom(witness), hessian.NameMapFrom(witness)
		if !reflect.DeepEqual(tm, tm2) || !reflect.DeepEqual(nm, nm2) {
			failf(rt, c, "C16 TypeMapFrom/NameMapFrom disagree with ExtractTypeNameMap for %s", typ.Name())
		}
		r.Eval()
		// the maps extracted from a value carry that value itself, whatever dynamic types
		// its interface slots hold
		if fill != "zero" && fill != "nil-pointer" {
			if _, perr := zoo.Project(witness, nil); perr == nil {
				if err := roundTripWith(witness, tm, copyNames(nm)); err != nil {
					failf(rt, c, "C16 maps extracted from a %s witness of %s do not carry the witness itself: %v\n witness: %s", fill, typ.Name(), err, zoo.Describe(witness, 300))
				}
				r.Eval()
			}
		}
		rc := reachable(typ)
		// sufficiency: an independently generated value of the same type round-trips
		// with the witness's maps (types with interface slots carry dynamic types the
		// static closure cannot know: skipped there)
		if !rc.hasIface {
			g2 := zoo.NewG(rt, full)
			v2 := reflect.New(typ)
			v2.Elem().Set(g2.Value(typ))
			second := v2.Interface()
			if typ.Kind() != reflect.Struct {
				second = v2.Elem().Interface()
			}
			if _, perr := zoo.Project(second, nil); perr == nil {
				c.set("second", zoo.Describe(second, 300))
				if err := roundTripWith(second, tm, copyNames(nm)); err != nil {
					failf(rt, c, "C16 maps extracted from a %s witness of %s do not carry another value of the type: %v\n witness: %s\n second: %s", fill, typ.Name(), err, zoo.Describe(witness, 300), zoo.Describe(second, 300))
				}
				r.Eval()
				// the witness handed over the other way (by value instead of through a pointer, or the reverse) is a
				// value of the type as well: the type map from one form works with the name map from the other
				if typ.Kind() == reflect.Struct && fill != "nil-pointer" {
					var other interface{} = w.Interface()
					if byPtr {
						other = w.Elem().Interface()
					}
					var tmO map[string]reflect.Type
					var nmO map[string]string
					if pv, st := guard(func() { tmO, nmO = hessian.TypeMapFrom(other), hessian.NameMapFrom(other) }); pv != nil {
						failf(rt, c, "C16 extraction from the witness of %s in its other form panicked: %v [%s]", typ.Name(), pv, st)
					}
					if err := roundTripWith(second, tmO, copyNames(nm)); err != nil {
						failf(rt, c, "C16 %s: the name map from the witness (by pointer: %v) and the type map from the same witness in the other form do not carry another value of the type: %v\n witness: %s", typ.Name(), byPtr, err, zoo.Describe(witness, 300))
					}
					if err := roundTripWith(second, tm, nmO); err != nil {
						failf(rt, c, "C16 %s: the type map from the witness (by pointer: %v) and the name map from the same witness in the other form do not carry another value of the type: %v\n witness: %s", typ.Name(), byPtr, err, zoo.Describe(witness, 300))
					}
					r.Eval()
				}
			}
		}
		behind := len(rc.structs) > 1
		if behind && fill != "populated" {
			r.NonTrivial(av.Hash(typ.Name() + fill + zoo.Describe(witness, 2000)))
		}
		r.Label("fill:" + fill)
		r.Label("type:" + typ.String())
		r.Sample(func() interface{} {
			return map[string]interface{}{"type": typ.Name(), "fill": fill, "by_pointer": byPtr, "witness": zoo.Describe(witness, 200), "name_map_size": len(nm), "type_map_size": len(tm)}
		})
	})
}
