package props

import (
	"bufio"
	"bytes"
	"fmt"
	"reflect"
	"runtime"
	"strings"
	"sync"
	"sync/atomic"
	"testing"
	"time"

	hessian "github.com/vogo/gohessian"
	"pgregory.net/rapid"

	"verif/harness/av"
	"verif/harness/rec"
	"verif/harness/vcmp"
	"verif/harness/zoo"
)

type owner struct {
	flag int32
	obj  interface{}
}

var poolKinds = []string{"EncoderPool", "DecoderPool", "SerializerPool"}

var poolProbe = &zoo.Nested{V: zoo.Inner{A: 5, S: "x"}, P: &zoo.Inner{A: 7, S: "pooled"}, N: 3}

// newPool builds a pool; withMaps=false builds it without maps (nil), in which case every
// object the pool creates has maps of its own, like a newly constructed instance.
func newPool(kind string, size int, withMaps bool) (hessian.Pool, map[string]reflect.Type, map[string]string) {
	tm, nm := hessian.ExtractTypeNameMap(poolProbe)
	if !withMaps {
		switch kind {
		case "EncoderPool":
			return hessian.NewEncoderPool(size, nil), nil, nil
		case "DecoderPool":
			return hessian.NewDecoderPool(size, nil), nil, nil
		}
		return hessian.NewSerializerPool(size, nil, nil), nil, nil
	}
	switch kind {
	case "EncoderPool":
		return hessian.NewEncoderPool(size, nm), tm, nm
	case "DecoderPool":
		return hessian.NewDecoderPool(size, tm), tm, nm
	}
	return hessian.NewSerializerPool(size, tm, nm), tm, nm
}

// usable: an object from the pool encodes / decodes the probe exactly as a newly
// constructed instance does.
func usable(kind string, o interface{}, tm map[string]reflect.Type, nm map[string]string) string {
	if tm == nil && nm == nil {
		return usableNoMaps(kind, o)
	}
	want, err := hessian.ToBytes(poolProbe, nm)
	if err != nil {
		return "harness: probe does not encode: " + err.Error()
	}
	switch kind {
	case "EncoderPool":
		e, ok := o.(*hessian.Encoder)
		if !ok || e == nil {
			return fmt.Sprintf("EncoderPool.Get returned %T", o)
		}
		got, err := e.Encode(poolProbe)
		if err != nil || !bytes.Equal(got, want) {
			return fmt.Sprintf("pooled encoder: err=%v, bytes equal=%v", err, bytes.Equal(got, want))
		}
	case "DecoderPool":
		d, ok := o.(*hessian.Decoder)
		if !ok || d == nil {
			return fmt.Sprintf("DecoderPool.Get returned %T", o)
		}
		got, err := d.Decode(want)
		if err != nil {
			return "pooled decoder: " + err.Error()
		}
		if p, ok := got.(*zoo.Nested); !ok || p.P == nil || p.P.S != "pooled" || p.N != 3 {
			return fmt.Sprintf("pooled decoder returned %T %v", got, got)
		}
	default:
		s, ok := o.(hessian.Serializer)
		if !ok || s == nil {
			return fmt.Sprintf("SerializerPool.Get returned %T", o)
		}
		got, err := s.ToBytes(poolProbe)
		if err != nil || !bytes.Equal(got, want) {
			return fmt.Sprintf("pooled serializer: err=%v, bytes equal=%v", err, bytes.Equal(got, want))
		}
		back, err := s.ToObject(got)
		if p, ok := back.(*zoo.Nested); err != nil || !ok || p.P == nil || p.P.S != "pooled" {
			return fmt.Sprintf("pooled serializer decode: %v %T", err, back)
		}
	}
	return ""
}

// usableNoMaps: an object from a pool built without maps behaves exactly like an instance
// newly constructed without maps (in particular it knows nothing another holder registered).
func usableNoMaps(kind string, o interface{}) string {
	_, fullNM := hessian.ExtractTypeNameMap(poolProbe)
	wire, err := hessian.ToBytes(poolProbe, fullNM)
	if err != nil {
		return "harness: probe does not encode: " + err.Error()
	}
	sameDec := func(got interface{}, gerr error) string {
		want, werr := hessian.NewDecoder(nil, nil).Decode(wire)
		if (gerr != nil) != (werr != nil) {
			return fmt.Sprintf("pooled decoder built without a type map: err=%v, a new one: err=%v", gerr, werr)
		}
		if gerr == nil {
			if cerr := vcmp.EqualValues(want, got); cerr != nil {
				return fmt.Sprintf("pooled decoder built without a type map decodes differently from a new one: %v", cerr)
			}
		}
		return ""
	}
	sameEnc := func(got []byte, gerr error) string {
		want, werr := hessian.NewEncoder(nil, nil).Encode(poolProbe)
		if (gerr != nil) != (werr != nil) || !bytes.Equal(got, want) {
			return fmt.Sprintf("pooled encoder built without a name map: err=%v bytes %s, a new one: err=%v bytes %s", gerr, hexClip(got, 48), werr, hexClip(want, 48))
		}
		return ""
	}
	switch kind {
	case "EncoderPool":
		e, ok := o.(*hessian.Encoder)
		if !ok || e == nil {
			return fmt.Sprintf("EncoderPool.Get returned %T", o)
		}
		return sameEnc(e.Encode(poolProbe))
	case "DecoderPool":
		d, ok := o.(*hessian.Decoder)
		if !ok || d == nil {
			return fmt.Sprintf("DecoderPool.Get returned %T", o)
		}
		return sameDec(d.Decode(wire))
	default:
		s, ok := o.(hessian.Serializer)
		if !ok || s == nil {
			return fmt.Sprintf("SerializerPool.Get returned %T", o)
		}
		if m := sameEnc(s.ToBytes(poolProbe)); m != "" {
			return m
		}
		return sameDec(s.ToObject(wire))
	}
}

// registerOn registers custom entries on one pooled object (only used on pools built without
// maps, where the object's maps are its own).
func registerOn(kind string, o interface{}) bool {
	tm, nm := hessian.ExtractTypeNameMap(poolProbe)
	switch kind {
	case "EncoderPool":
		e := o.(*hessian.Encoder)
		e.RegisterNameType("Nested", "custom.Nested")
		e.RegisterNameType("Inner", "custom.Inner")
		return true
	case "DecoderPool":
		d := o.(*hessian.Decoder)
		for k, v := range tm {
			d.RegisterType(k, v)
		}
		_ = nm
		return true
	}
	return false
}

func objID(o interface{}) uintptr {
	v := reflect.ValueOf(o)
	if v.Kind() == reflect.Ptr {
		return v.Pointer()
	}
	return 0
}

// callNonBlocking runs op on its own goroutine. A timer only nominates: the
// operation is reported as blocking when its goroutine is parked in a channel
// operation / select (no timer, nobody else touching the pool) — a state from
// which only another pool user could wake it, and there is none.
func callNonBlocking(name string, op func()) string {
	done := make(chan struct{})
	var gid atomic.Value
	go func() {
		gid.Store(curGoroutine())
		op()
		close(done)
	}()
	deadline := 2 * time.Second
	for {
		select {
		case <-done:
			return ""
		case <-time.After(deadline):
		}
		id, _ := gid.Load().(string)
		if id == "" {
			continue // not even started: machine is busy, keep waiting
		}
		st := goroutineState(id)
		parked := 0
		for i := 0; i < 50; i++ {
			s := goroutineState(id)
			if isParkedState(s) {
				parked++
			}
			select {
			case <-done:
				return ""
			default:
			}
			runtime.Gosched()
			time.Sleep(time.Millisecond)
		}
		if parked == 50 {
			return fmt.Sprintf("%s blocks: its goroutine stays parked in [%s] with no other pool user", name, st)
		}
	}
}

// isParkedState: wait states out of which a goroutine only comes when another goroutine acts
// (channel operations, select, mutexes, condition variables, wait groups; a sleep or timer wait is not one).
func isParkedState(s string) bool {
	for _, p := range []string{"chan send", "chan receive", "select", "sync.Mutex.Lock", "sync.RWMutex", "semacquire", "sync.Cond.Wait", "sync.WaitGroup.Wait"} {
		if strings.HasPrefix(s, p) {
			return true
		}
	}
	return false
}

func curGoroutine() string {
	buf := make([]byte, 64)
	buf = buf[:runtime.Stack(buf, false)]
	// "goroutine 123 [running]:"
	f := strings.Fields(string(buf))
	if len(f) >= 2 {
		return f[1]
	}
	return ""
}

func goroutineState(id string) string {
	buf := make([]byte, 1<<20)
	buf = buf[:runtime.Stack(buf, true)]
	for _, blk := range strings.Split(string(buf), "\n\n") {
		if strings.HasPrefix(blk, "goroutine "+id+" [") {
			i := strings.Index(blk, "[")
			j := strings.Index(blk, "]")
			if i >= 0 && j > i {
				return blk[i+1 : j]
			}
		}
	}
	return "gone"
}

func TestC17(t *testing.T) {
	r := rec.For("C17")
	// ---------------- sequential, model-based
	check(t, "C17", func(rt *rapid.T, c *caseInfo) {
		kind := rapid.SampledFrom(poolKinds).Draw(rt, "pool")
		size := rapid.IntRange(0, 8).Draw(rt, "size")
		withMaps := rapid.IntRange(0, 3).Draw(rt, "builtWithMaps") != 0
		// a sibling: another pool of the same kind built EARLIER for the very same maps, with room for more
		// objects. What is returned to one pool is none of the other's business.
		var sibling hessian.Pool
		pool, tm, nm := newPool(kind, size, withMaps)
		if withMaps && rapid.Bool().Draw(rt, "withSibling") {
			switch kind {
			case "EncoderPool":
				sibling = hessian.NewEncoderPool(size+3, nm)
				pool = hessian.NewEncoderPool(size, nm)
			case "DecoderPool":
				sibling = hessian.NewDecoderPool(size+3, tm)
				pool = hessian.NewDecoderPool(size, tm)
			default:
				sibling = hessian.NewSerializerPool(size+3, tm, nm)
				pool = hessian.NewSerializerPool(size, tm, nm)
			}
		}
		foreign := map[uintptr]interface{}{} // objects that went through the sibling pool
		c.set("pool", kind)
		c.set("size", size)
		c.set("builtWithMaps", withMaps)
		custom := map[uintptr]bool{} // objects a holder registered entries of its own on
		held := map[uintptr]interface{}{}
		idle := map[uintptr]bool{}        // returned and not handed out again: may sit in the pool
		seen := map[uintptr]interface{}{} // keeps every object alive: an address is never reused
		var hist []string
		var order []uintptr
		returnOnFull, getOnEmpty := false, false
		get := func() {
			var o interface{}
			if msg := callNonBlocking("Get", func() { o = pool.Get() }); msg != "" {
				c.set("history", hist)
				failf(rt, c, "C17 %s(size %d) after %v: %s", kind, size, hist, msg)
			}
			id := objID(o)
			if o == nil || id == 0 {
				failf(rt, c, "C17 %s(size %d): Get returned %T %v after %v", kind, size, o, o, hist)
			}
			if _, dup := held[id]; dup {
				c.set("history", hist)
				failf(rt, c, "C17 %s(size %d): Get handed out an object that is still held by another caller; history %v", kind, size, hist)
			}
			if foreign[id] != nil {
				c.set("history", hist)
				failf(rt, c, "C17 %s(size %d): Get handed out an object that was obtained from and returned to ANOTHER pool built for the same maps; history %v", kind, size, hist)
			}
			switch {
			case idle[id]:
				delete(idle, id)
				hist = append(hist, "get:pooled")
			case seen[id] != nil:
				c.set("history", hist)
				failf(rt, c, "C17 %s(size %d): Get handed out an object a second time although it was not returned in between; history %v", kind, size, hist)
			default:
				if len(idle) == 0 {
					getOnEmpty = true
				}
				hist = append(hist, "get:fresh")
				if !withMaps && kind != "SerializerPool" && rapid.IntRange(0, 2).Draw(rt, "registerFirst") == 0 {
					// the very first thing done with an object fresh from the factory is a registration
					if pv, st := guard(func() { registerOn(kind, o) }); pv != nil {
						failf(rt, c, "C17 %s(size %d, built without maps): registering on an object fresh from the empty pool panicked: %v [%s]", kind, size, pv, st)
					}
					custom[id] = true
					hist = append(hist, "register-first")
				} else if msg := usable(kind, o, tm, nm); msg != "" {
					failf(rt, c, "C17 %s(size %d): fresh object not usable: %s", kind, size, msg)
				}
			}
			seen[id] = o
			held[id] = o
			order = append(order, id)
		}
		ret := func() {
			if len(order) == 0 {
				rt.Skip("nothing held")
			}
			i := rapid.IntRange(0, len(order)-1).Draw(rt, "which")
			id := order[i]
			order = append(order[:i], order[i+1:]...)
			o := held[id]
			delete(held, id)
			if len(idle) >= size {
				returnOnFull = true
			}
			if msg := callNonBlocking("Return", func() { pool.Return(o) }); msg != "" {
				c.set("history", hist)
				failf(rt, c, "C17 %s(size %d) after %v: %s", kind, size, hist, msg)
			}
			idle[id] = true
			hist = append(hist, "return")
		}
		var kept, keptCopy [][]byte
		keptN := 0
		rt.Repeat(map[string]func(*rapid.T){
			"get":    func(*rapid.T) { get() },
			"return": func(*rapid.T) { ret() },
			"use": func(*rapid.T) {
				if len(order) == 0 {
					rt.Skip("nothing held")
				}
				id := order[rapid.IntRange(0, len(order)-1).Draw(rt, "which")]
				if custom[id] {
					held2 := held[id]
					guard(func() { usable(kind, held2, tm, nm) }) // customised by its holder: exercised, not compared
					hist = append(hist, "use:customised")
					return
				}
				if msg := usable(kind, held[id], tm, nm); msg != "" {
					failf(rt, c, "C17 %s(size %d): held object not usable: %s; history %v", kind, size, msg, hist)
				}
				// what an encode call handed out stays the caller's, whoever holds the object next
				keptN++
				var kb []byte
				switch x := held[id].(type) {
				case *hessian.Encoder:
					kb, _ = x.Encode([]interface{}{int32(keptN), "kept", int32(keptN * 31)})
				case hessian.Serializer:
					kb, _ = x.ToBytes([]interface{}{int32(keptN), "kept", int32(keptN * 31)})
				}
				if kb != nil {
					kept = append(kept, kb)
					keptCopy = append(keptCopy, append([]byte{}, kb...))
				}
				for i := range kept {
					if !bytes.Equal(kept[i], keptCopy[i]) {
						failf(rt, c, "C17 %s(size %d): the octets an encode call handed out earlier (%x) were overwritten by a later call on a pooled object (now %x); history %v", kind, size, keptCopy[i], kept[i], hist)
					}
				}
				hist = append(hist, "use")
			},
			"sibling": func(*rapid.T) {
				if sibling == nil {
					rt.Skip("no sibling pool")
				}
				n := rapid.IntRange(1, size+3).Draw(rt, "siblingObjects")
				objs := make([]interface{}, n)
				for i := range objs {
					objs[i] = sibling.Get()
					id := objID(objs[i])
					if _, isHeld := held[id]; isHeld || idle[id] {
						failf(rt, c, "C17 %s(size %d): a sibling pool built for the same maps handed out an object of this pool; history %v", kind, size, hist)
					}
					foreign[id] = objs[i]
				}
				for _, o := range objs {
					sibling.Return(o)
				}
				hist = append(hist, fmt.Sprintf("sibling:get+return x%d", n))
			},
			"register": func(*rapid.T) {
				// a holder registers entries on the object it holds; the pool was built without maps, so the
				// object's maps are its own and no other object may learn of it
				if withMaps || len(order) == 0 || kind == "SerializerPool" {
					rt.Skip("not applicable")
				}
				id := order[rapid.IntRange(0, len(order)-1).Draw(rt, "which")]
				if registerOn(kind, held[id]) {
					custom[id] = true
					hist = append(hist, "register")
				}
			},
		})
		// drain: the pool may hand back at most `size` of the idle objects, each once,
		// everything else must be fresh
		old := 0
		for i := 0; i < len(idle)+size+2; i++ {
			var o interface{}
			if msg := callNonBlocking("Get", func() { o = pool.Get() }); msg != "" {
				failf(rt, c, "C17 %s(size %d) draining after %v: %s", kind, size, hist, msg)
			}
			id := objID(o)
			if _, dup := held[id]; dup {
				failf(rt, c, "C17 %s(size %d): drain got an object that is still held; history %v", kind, size, hist)
			}
			if foreign[id] != nil {
				failf(rt, c, "C17 %s(size %d): drain got an object that was returned to ANOTHER pool built for the same maps; history %v", kind, size, hist)
			}
			held[id] = o
			if idle[id] {
				delete(idle, id)
				old++
			} else if seen[id] != nil {
				failf(rt, c, "C17 %s(size %d): drain got an object twice; history %v", kind, size, hist)
			}
			seen[id] = o
		}
		if old > size {
			c.set("history", hist)
			failf(rt, c, "C17 %s(size %d): pool retained %d objects, more than its size; history %v", kind, size, old, hist)
		}
		r.Eval()
		r.Label("pool:" + kind)
		r.Label(fmt.Sprintf("size:%d", size))
		if !withMaps {
			r.Label("pool built without maps")
		}
		if len(custom) > 0 {
			r.Label("a holder registered on its object")
		}
		if sibling != nil {
			r.Label("a sibling pool built for the same maps")
		}
		if returnOnFull || getOnEmpty {
			r.NonTrivial(av.Hash(kind + fmt.Sprint(size, hist)))
		}
		if returnOnFull {
			r.Label("return-on-full")
		}
		if getOnEmpty {
			r.Label("get-on-empty")
		}
		r.Sample(func() interface{} {
			return map[string]interface{}{"pool": kind, "size": size, "built_with_maps": withMaps, "history": strings.Join(hist, " ")}
		})
	})
	if t.Failed() {
		return
	}
	// ---------------- what the pool lets go of is let go: of n objects returned to a pool of size s at most s stay
	// reachable through the pool (a finalizer tells); and a Return does not wait for the destination the returned
	// object last wrote to
	if shard, _ := shardInfo(); shard == 0 {
		for _, kind := range poolKinds {
			for _, size := range []int{0, 1, 3} {
				r.Current(fmt.Sprintf("C17 %s(size %d): objects dropped by the pool become unreachable", kind, size))
				dropped, control := c17Retention(kind, size, size+5)
				r.Eval()
				r.NonTrivial(av.Hash(fmt.Sprint("retention", kind, size)))
				if control && dropped < 5 {
					directFail(t, "C17", map[string]interface{}{"pool": kind, "size": size, "phase": "retention"},
						"C17 %s(size %d): %d objects were obtained and all returned; after repeated garbage collections only %d of them have become unreachable - the pool keeps more than its %d alive",
						kind, size, size+5, dropped, size)
				}
				if kind == "DecoderPool" {
					continue
				}
				r.Current(fmt.Sprintf("C17 %s(size %d): Return of an object that last wrote through a buffered writer over a stalled destination", kind, size))
				pool, _, nm := newPool(kind, size, true)
				for i := 0; i <= size; i++ {
					o := pool.Get()
					sink := &stalledSink{release: make(chan struct{})}
					bw := bufio.NewWriterSize(sink, 4096)
					var werr error
					switch x := o.(type) {
					case *hessian.Encoder:
						werr = x.WriteTo(bw, poolProbe)
					case hessian.Serializer:
						werr = x.WriteTo(bw, poolProbe)
					}
					_ = nm
					msg := callNonBlocking("Return", func() { pool.Return(o) })
					close(sink.release)
					r.Eval()
					if werr != nil {
						harnessBug(t, "C17", "writing the probe into a buffer failed: %v", werr)
					}
					if msg != "" {
						directFail(t, "C17", map[string]interface{}{"pool": kind, "size": size, "phase": "return-after-buffered-write"},
							"C17 %s(size %d): Return of an object whose last message still sits in the caller's bufio.Writer (the destination behind it takes no data): %s", kind, size, msg)
					}
				}
			}
		}
		r.Label("retention-by-finalizers; return-after-buffered-write")
	}
	// ---------------- burst: many goroutines Return to a full pool at the same moment
	// (a Return that makes room and then sends unconditionally parks for good when
	// another Return slips in between; nobody Gets during the burst)
	for round := 0; round < rec.EnvInt("VERIF_C17_ROUNDS", 30); round++ {
		rng := seedFor(fmt.Sprint("C17burst", round))
		kind := poolKinds[rng.next()%3]
		size := 1 + int(rng.next()%4)
		n := []int{4, 16, 64}[rng.next()%3]
		pool, _, _ := newPool(kind, size, true)
		objs := make([]interface{}, size+n)
		for i := range objs {
			objs[i] = pool.Get()
		}
		for i := 0; i < size; i++ {
			pool.Return(objs[i]) // now full
		}
		var wg sync.WaitGroup
		start := make(chan struct{})
		for g := 0; g < n; g++ {
			wg.Add(1)
			go func(o interface{}) {
				defer wg.Done()
				<-start
				pool.Return(o)
			}(objs[size+g])
		}
		done := make(chan struct{})
		go func() { wg.Wait(); close(done) }()
		close(start)
		if msg := waitOrParked(done, "burst of Returns on a full pool"); msg != "" {
			directFail(t, "C17", map[string]interface{}{"pool": kind, "size": size, "goroutines": n, "phase": "burst-return"}, "C17 %s(size %d), %d simultaneous Returns on a full pool: %s", kind, size, n, msg)
		}
		// same for Gets on an empty pool
		pool2, _, _ := newPool(kind, size, true)
		var wg2 sync.WaitGroup
		start2 := make(chan struct{})
		for g := 0; g < n; g++ {
			wg2.Add(1)
			go func() { defer wg2.Done(); <-start2; pool2.Get() }()
		}
		done2 := make(chan struct{})
		go func() { wg2.Wait(); close(done2) }()
		close(start2)
		if msg := waitOrParked(done2, "burst of Gets on an empty pool"); msg != "" {
			directFail(t, "C17", map[string]interface{}{"pool": kind, "size": size, "goroutines": n, "phase": "burst-get"}, "C17 %s(size %d), %d simultaneous Gets on an empty pool: %s", kind, size, n, msg)
		}
		r.EvalN(int64(2 * n))
		r.NonTrivial(av.Hash(fmt.Sprint("burst", kind, size, n, round)))
		r.Label("burst:return-on-full+get-on-empty")
		// Gets released at the same instant (spin barrier) on a pool that holds k <= size objects: every
		// getter must come back with an object of its own, at most k of them old ones
		gn := []int{2, 3, 4, 8}[rng.next()%4]
		for sub := 0; sub < rec.EnvInt("VERIF_C17_SUBROUNDS", 150); sub++ {
			pool3, _, _ := newPool(kind, size, true)
			k := 1 + int(rng.next()%uint64(size))
			olds := map[uintptr]interface{}{}
			tmp := make([]interface{}, k)
			for i := range tmp {
				tmp[i] = pool3.Get()
				olds[objID(tmp[i])] = tmp[i]
			}
			for _, o := range tmp {
				pool3.Return(o)
			}
			got := make([]interface{}, gn)
			var ready, goFlag int32
			var wg3 sync.WaitGroup
			for g := 0; g < gn; g++ {
				wg3.Add(1)
				go func(g int) {
					defer wg3.Done()
					atomic.AddInt32(&ready, 1)
					for atomic.LoadInt32(&goFlag) == 0 {
						runtime.Gosched() // never a bare spin: under the race detector it is not preemptible
					}
					got[g] = pool3.Get()
				}(g)
			}
			for atomic.LoadInt32(&ready) < int32(gn) {
				runtime.Gosched()
			}
			atomic.StoreInt32(&goFlag, 1)
			done3 := make(chan struct{})
			go func() { wg3.Wait(); close(done3) }()
			if msg := waitOrParked(done3, "burst of Gets on a filled pool"); msg != "" {
				directFail(t, "C17", map[string]interface{}{"pool": kind, "size": size, "goroutines": gn, "phase": "burst-get-filled"}, "C17 %s(size %d), %d simultaneous Gets on a pool holding %d: %s", kind, size, gn, k, msg)
			}
			ids := map[uintptr]bool{}
			nOld := 0
			for _, o := range got {
				id := objID(o)
				if o == nil || ids[id] {
					directFail(t, "C17", map[string]interface{}{"pool": kind, "size": size, "goroutines": gn, "held_by_pool": k, "phase": "burst-get-filled"}, "C17 %s(size %d): %d simultaneous Gets on a pool holding %d objects: one object was handed to two callers at once (sub-round %d)", kind, size, gn, k, sub)
				}
				ids[id] = true
				if olds[id] != nil {
					nOld++
				}
			}
			if nOld > k {
				directFail(t, "C17", map[string]interface{}{"pool": kind, "size": size, "goroutines": gn, "phase": "burst-get-filled"}, "C17 %s(size %d): %d old objects came out of a pool that held %d", kind, size, nOld, k)
			}
			r.EvalN(int64(gn))
		}
		r.NonTrivial(av.Hash(fmt.Sprint("burst-filled", kind, size, gn, round)))
		r.Label(fmt.Sprintf("burst:simultaneous-gets-on-filled-pool size=%d", size))
	}
	// ---------------- concurrent: ownership table under the race detector
	rounds := rec.EnvInt("VERIF_C17_ROUNDS", 30)
	rng := seedFor("C17")
	for round := 0; round < rounds; round++ {
		kind := poolKinds[rng.next()%3]
		size := []int{0, 1, 1, 1, 2, 2, 3, 4, 8}[rng.next()%9]
		n := []int{1, 2, 4, 8, 16, 64}[rng.next()%6]
		iters := 200
		if size <= 2 && n <= 16 {
			iters = 1500 // few slots, many takers: the contended case
		}
		withMaps := rng.next()%4 != 0
		pool, tm, nm := newPool(kind, size, withMaps)
		var owners sync.Map // id -> *int32
		var firstErr atomic.Value
		var wg sync.WaitGroup
		start := make(chan struct{})
		for g := 0; g < n; g++ {
			wg.Add(1)
			go func(g int) {
				defer wg.Done()
				<-start
				for i := 0; i < iters; i++ {
					o := pool.Get()
					id := objID(o)
					ow, _ := owners.LoadOrStore(id, &owner{obj: o}) // holding obj keeps its address from being reused
					fl := &ow.(*owner).flag
					if !atomic.CompareAndSwapInt32(fl, 0, 1) {
						firstErr.CompareAndSwap(nil, fmt.Sprintf("object handed to two holders at once (goroutine %d, iteration %d)", g, i))
						return
					}
					if i%16 == 0 {
						if msg := usable(kind, o, tm, nm); msg != "" {
							firstErr.CompareAndSwap(nil, "object obtained concurrently not usable: "+msg)
						}
					}
					if !atomic.CompareAndSwapInt32(fl, 1, 0) {
						firstErr.CompareAndSwap(nil, "ownership flag changed while held")
						return
					}
					pool.Return(o)
				}
			}(g)
		}
		done := make(chan struct{})
		go func() { wg.Wait(); close(done) }()
		close(start)
		if msg := waitOrParked(done, "concurrent Get/Return round"); msg != "" {
			directFail(t, "C17", map[string]interface{}{"pool": kind, "size": size, "goroutines": n, "phase": "concurrent"}, "C17 %s(size %d), %d goroutines: %s", kind, size, n, msg)
		}
		if e := firstErr.Load(); e != nil {
			directFail(t, "C17", map[string]interface{}{"pool": kind, "size": size, "goroutines": n, "phase": "concurrent"}, "C17 %s(size %d), %d goroutines: %v", kind, size, n, e)
		}
		// drain
		old := 0
		got := map[uintptr]interface{}{}
		for i := 0; i < size+n+2; i++ {
			o := pool.Get()
			id := objID(o)
			if got[id] != nil {
				directFail(t, "C17", map[string]interface{}{"pool": kind, "size": size, "goroutines": n, "phase": "drain"}, "C17 %s(size %d): drain got the same object twice after a concurrent round", kind, size)
			}
			got[id] = o
			if _, ok := owners.Load(id); ok {
				old++
			}
		}
		if old > size {
			directFail(t, "C17", map[string]interface{}{"pool": kind, "size": size, "goroutines": n, "phase": "drain"}, "C17 %s(size %d): %d objects retained after a concurrent round", kind, size, old)
		}
		r.EvalN(int64(n * iters))
		r.NonTrivial(av.Hash(fmt.Sprint("conc", kind, size, n, round)))
		r.Label(fmt.Sprintf("concurrent:goroutines=%d", n))
		r.Label(fmt.Sprintf("concurrent:size=%d", size))
		if !withMaps {
			r.Label("concurrent:pool built without maps")
		}
	}
}

// waitOrParked waits for done; reports only if every goroutine of the round is
// parked in a channel operation inside pool code (deadlock), never on time alone.
func waitOrParked(done chan struct{}, what string) string {
	stable := 0
	for {
		select {
		case <-done:
			return ""
		case <-time.After(300 * time.Millisecond):
		}
		buf := make([]byte, 4<<20)
		buf = buf[:runtime.Stack(buf, true)]
		blocked, active := 0, 0
		for _, blk := range strings.Split(string(buf), "\n\n") {
			if !strings.Contains(blk, "c17_test.go") || !strings.Contains(blk, "TestC17.func") {
				continue
			}
			state := ""
			if i, j := strings.Index(blk, "["), strings.Index(blk, "]"); i >= 0 && j > i {
				state = blk[i+1 : j]
			}
			if strings.Contains(blk, "gohessian.") && isParkedState(state) {
				blocked++ // parked inside library code on something only another goroutine can release
			} else if !isParkedState(state) {
				active++
			}
		}
		if blocked > 0 && active == 0 {
			// confirm: the same picture three times in a row (nobody is about to wake them)
			stable++
			if stable >= 3 {
				return fmt.Sprintf("%s deadlocked: %d goroutines parked inside the pool, none runnable", what, blocked)
			}
		} else {
			stable = 0
		}
	}
}

// stalledSink: a destination that takes no data until released (a peer that does not read).
type stalledSink struct{ release chan struct{} }

func (s *stalledSink) Write(p []byte) (int, error) {
	<-s.release
	return len(p), nil
}

// c17Retention obtains n objects from a fresh pool, puts a finalizer on each, returns them all and reports how
// many became unreachable. control: an object that never saw the pool was finalized in the same time (if not, the
// collector was not given the chance and the count says nothing).
func c17Retention(kind string, size, n int) (dropped int, control bool) {
	pool, _, _ := newPool(kind, size, true)
	var finalized, ctl int32
	func() {
		objs := make([]interface{}, n)
		for i := range objs {
			objs[i] = pool.Get()
			runtime.SetFinalizer(objs[i], func(interface{}) { atomic.AddInt32(&finalized, 1) })
		}
		for _, o := range objs {
			pool.Return(o)
		}
		runtime.SetFinalizer(hessian.NewEncoder(nil, nil), func(interface{}) { atomic.AddInt32(&ctl, 1) })
	}()
	for i := 0; i < 400 && (atomic.LoadInt32(&finalized) < int32(n-size) || atomic.LoadInt32(&ctl) == 0); i++ {
		runtime.GC()
		time.Sleep(5 * time.Millisecond)
	}
	runtime.KeepAlive(pool)
	return int(atomic.LoadInt32(&finalized)), atomic.LoadInt32(&ctl) == 1
}
