package zoo

import (
	"fmt"
	"math"
	"reflect"
	"time"

	"pgregory.net/rapid"
)

// Cfg steers a generator run.
type Cfg struct {
	// MaxBig is the largest length of the one "big" container per case (<= 600).
	MaxBig int
	// Small is the largest length of every other container.
	Small int
	// Share lets pointers to node types alias nodes created earlier in the case.
	Share bool
	// Budget bounds the total number of generated leaves per case.
	Budget int
	// Avoid names input classes excluded by construction (open known findings).
	Avoid map[string]bool
	// NoBigStrings keeps strings short (C09 owns long strings).
	NoBigStrings bool
	// TimeMillis restricts instants to whole milliseconds.
	TimeMillis bool
}

func DefaultCfg() Cfg {
	return Cfg{MaxBig: 600, Small: 4, Share: true, Budget: 1500}
}

// G is the state of one generated case.
type G struct {
	T        *rapid.T
	Cfg      Cfg
	budget   int
	slices   int
	bigSlot  int
	bigCls   int
	nodes    map[reflect.Type][]reflect.Value
	dynConts []reflect.Value
	ptrConts map[reflect.Type][]reflect.Value
	depth    int
	n        int
	// Labels collected for evidence (length class hit, shapes, ...).
	Labels  map[string]int
	Avoided map[string]int
}

func NewG(t *rapid.T, cfg Cfg) *G {
	g := &G{T: t, Cfg: cfg, budget: cfg.Budget, nodes: map[reflect.Type][]reflect.Value{}, Labels: map[string]int{}, Avoided: map[string]int{}}
	g.bigCls = rapid.IntRange(0, 6).Draw(t, "bigLenClass")
	g.bigSlot = rapid.IntRange(0, 2).Draw(t, "bigSlot")
	return g
}

func (g *G) lbl(s string) { g.Labels[s]++ }

func (g *G) name(s string) string {
	g.n++
	return fmt.Sprintf("%s%d", s, g.n)
}

// LenClassName names the stratified length classes.
var LenClassName = []string{"len0", "len1-7", "len8", "len9-255", "len256-263", "len264-600", "len1020-1030"}

func LenClass(n int) int {
	switch {
	case n == 0:
		return 0
	case n <= 7:
		return 1
	case n == 8:
		return 2
	case n <= 255:
		return 3
	case n <= 263:
		return 4
	case n <= 600:
		return 5
	default:
		return 6
	}
}

func (g *G) sliceLen() int {
	slot := g.slices
	g.slices++
	if slot == g.bigSlot && g.budget > 0 {
		var lo, hi int
		switch g.bigCls {
		case 0:
			lo, hi = 0, 0
		case 1:
			lo, hi = 1, 7
		case 2:
			lo, hi = 8, 8
		case 3:
			lo, hi = 9, 255
		case 4:
			lo, hi = 256, 263
		case 5:
			lo, hi = 264, 600
		default:
			// beyond the quantifier's 600: the decoder stops pre-allocating at 1024 elements
			lo, hi = 1020, 1030
			if g.Cfg.MaxBig < 600 {
				lo, hi = 264, 600
			}
		}
		if hi > g.Cfg.MaxBig && !(g.bigCls == 6 && g.Cfg.MaxBig >= 600) {
			hi = g.Cfg.MaxBig
		}
		if lo > hi {
			lo = hi
		}
		n := rapid.IntRange(lo, hi).Draw(g.T, g.name("biglen"))
		if g.bigCls == 3 && hi >= 65 && rapid.IntRange(0, 3).Draw(g.T, g.name("around64")) == 0 {
			// the decoder pre-allocates lists of up to 64 elements: the lengths on either side and 64 itself
			n = rapid.IntRange(63, 65).Draw(g.T, g.name("len63-65"))
			g.lbl("big:len63-65")
		}
		g.lbl("big:" + LenClassName[LenClass(n)])
		return n
	}
	if g.budget <= 0 {
		return 0
	}
	return rapid.IntRange(0, g.Cfg.Small).Draw(g.T, g.name("len"))
}

var int32Bounds = []int32{0, 1, -1, 47, 48, -16, -17, 2047, 2048, -2048, -2049, 262143, 262144, -262144, -262145, math.MaxInt32, math.MinInt32, 127, 128, 255, 256, 65535, 65536}
var int64Bounds = []int64{0, 1, -1, 15, 16, -8, -9, 2047, 2048, -2048, -2049, 262143, 262144, -262144, -262145, math.MaxInt32, math.MaxInt32 + 1, math.MinInt32, math.MinInt32 - 1, math.MaxInt64, math.MinInt64, 1 << 40, -(1 << 40)}

func (g *G) Int32() int32 {
	switch rapid.IntRange(0, 3).Draw(g.T, g.name("i32k")) {
	case 0:
		return rapid.SampledFrom(int32Bounds).Draw(g.T, g.name("i32b"))
	case 1:
		return int32(rapid.IntRange(-300, 300).Draw(g.T, g.name("i32s")))
	default:
		return rapid.Int32().Draw(g.T, g.name("i32"))
	}
}

func (g *G) Int64() int64 {
	switch rapid.IntRange(0, 3).Draw(g.T, g.name("i64k")) {
	case 0:
		return rapid.SampledFrom(int64Bounds).Draw(g.T, g.name("i64b"))
	case 1:
		return int64(rapid.IntRange(-300, 300).Draw(g.T, g.name("i64s")))
	default:
		return rapid.Int64().Draw(g.T, g.name("i64"))
	}
}

func (g *G) Float64() float64 {
	switch rapid.IntRange(0, 5).Draw(g.T, g.name("f64k")) {
	case 0:
		return rapid.SampledFrom([]float64{0, 1, -1, 2, 100, 127, 128, -128, -129, 32767, 32768, -32768, -32769, 0.5, 1.5, math.Copysign(0, -1), math.Inf(1), math.Inf(-1), math.NaN(), math.MaxFloat32, math.SmallestNonzeroFloat64, math.MaxFloat64, 1e10, 3.14}).Draw(g.T, g.name("f64b"))
	case 1:
		return float64(rapid.IntRange(-70000, 70000).Draw(g.T, g.name("f64i")))
	case 2:
		return float64(math.Float32frombits(rapid.Uint32().Draw(g.T, g.name("f64f32"))))
	default:
		return math.Float64frombits(rapid.Uint64().Draw(g.T, g.name("f64bits")))
	}
}

func (g *G) Float32() float32 {
	switch rapid.IntRange(0, 3).Draw(g.T, g.name("f32k")) {
	case 0:
		return rapid.SampledFrom([]float32{0, 1, -1, 2, 0.5, 127, 128, 3.14, math.MaxFloat32, math.SmallestNonzeroFloat32, float32(math.Inf(1)), float32(math.NaN())}).Draw(g.T, g.name("f32b"))
	case 1:
		return float32(rapid.IntRange(-70000, 70000).Draw(g.T, g.name("f32i")))
	default:
		return math.Float32frombits(rapid.Uint32().Draw(g.T, g.name("f32bits")))
	}
}

// rune classes for string content
var runeGens = []*rapid.Generator[rune]{
	rapid.RuneFrom(nil, asciiTable),
	rapid.RuneFrom(nil, twoByteTable),
	rapid.RuneFrom(nil, threeByteTable),
	rapid.RuneFrom(nil, fourByteTable),
}

// String draws a valid UTF-8 string; class: 0 ASCII, 1 two-byte, 2 three-byte,
// 3 four-byte, 4 mixed.
func (g *G) StringOf(class, n int) string {
	rs := make([]rune, n)
	for i := range rs {
		c := class
		if c == 4 {
			c = rapid.IntRange(0, 3).Draw(g.T, g.name("rc"))
		}
		rs[i] = runeGens[c].Draw(g.T, g.name("r"))
	}
	return string(rs)
}

func (g *G) String() string {
	class := rapid.SampledFrom([]int{0, 0, 0, 1, 2, 3, 4}).Draw(g.T, g.name("sclass"))
	var n int
	k := rapid.IntRange(0, 19).Draw(g.T, g.name("slenk"))
	switch {
	case k < 3:
		n = 0
	case k < 16:
		n = rapid.IntRange(1, 12).Draw(g.T, g.name("slen"))
	case k < 19 || g.Cfg.NoBigStrings || g.budget < 200:
		n = rapid.IntRange(28, 36).Draw(g.T, g.name("slen"))
	default:
		n = rapid.IntRange(1020, 1030).Draw(g.T, g.name("slen"))
		class = 0
	}
	g.budget -= n / 8
	return g.StringOf(class, n)
}

func (g *G) Bytes() []byte {
	k := rapid.IntRange(0, 9).Draw(g.T, g.name("blenk"))
	var n int
	switch {
	case k == 0:
		return nil
	case k == 1:
		return []byte{}
	case k < 8:
		n = rapid.IntRange(1, 10).Draw(g.T, g.name("blen"))
	default:
		n = rapid.IntRange(13, 18).Draw(g.T, g.name("blen"))
	}
	b := make([]byte, n)
	for i := range b {
		b[i] = rapid.Byte().Draw(g.T, g.name("b"))
	}
	return b
}

var minMs = time.Date(1, 1, 1, 0, 0, 0, 0, time.UTC).UnixMilli()
var maxMs = time.Date(9999, 12, 31, 23, 59, 59, 999e6, time.UTC).UnixMilli()

// Time draws an instant (possibly the zero time).
func (g *G) Time() time.Time {
	k := rapid.IntRange(0, 9).Draw(g.T, g.name("tk"))
	var tm time.Time
	switch {
	case k == 0:
		return time.Time{}
	case k < 4:
		// inside the int32-seconds window, whole second
		s := rapid.Int64Range(-(1<<31), 1<<31-1).Draw(g.T, g.name("tsec"))
		tm = time.Unix(s, 0)
	case k < 7:
		ms := rapid.Int64Range(0, 4102444800000).Draw(g.T, g.name("tms"))
		tm = time.UnixMilli(ms)
	case k < 9 || g.Cfg.TimeMillis:
		ms := rapid.Int64Range(minMs, maxMs).Draw(g.T, g.name("tms"))
		tm = time.UnixMilli(ms)
	default:
		ms := rapid.Int64Range(minMs, maxMs).Draw(g.T, g.name("tms"))
		ns := rapid.Int64Range(0, 999999).Draw(g.T, g.name("tns"))
		tm = time.UnixMilli(ms).Add(time.Duration(ns))
	}
	if g.Cfg.Avoid["date-compact"] && IsCompactDateShape(tm) {
		g.Avoided["date-compact"]++
		tm = tm.Add(500 * time.Millisecond)
	}
	if rapid.Bool().Draw(g.T, g.name("tutc")) {
		tm = tm.UTC()
	}
	return tm
}

// IsCompactDateShape: the instant is a whole second (no sub-second part). On the
// pinned tree such instants are written in the x4b form holding seconds.
func IsCompactDateShape(tm time.Time) bool {
	return !tm.IsZero() && tm.Nanosecond() == 0
}

var nodeTypes = map[reflect.Type]bool{
	T(Node{}): true, T(FNode{}): true, T(Ping{}): true, T(Pong{}): true, T(ENode{}): true, T(SelfAny{}): true, T(MutA{}): true, T(MutB{}): true, T(Block{}): true,
}

// Value generates a value of static type typ.
func (g *G) Value(typ reflect.Type) reflect.Value {
	g.budget--
	v := reflect.New(typ).Elem()
	switch typ.Kind() {
	case reflect.Bool:
		v.SetBool(rapid.Bool().Draw(g.T, g.name("bool")))
	case reflect.Int8:
		v.SetInt(int64(rapid.Int8().Draw(g.T, g.name("i8"))))
	case reflect.Int16:
		v.SetInt(int64(rapid.Int16().Draw(g.T, g.name("i16"))))
	case reflect.Int32, reflect.Int:
		v.SetInt(int64(g.Int32()))
	case reflect.Int64:
		v.SetInt(g.Int64())
	case reflect.Uint8:
		v.SetUint(uint64(rapid.Uint8().Draw(g.T, g.name("u8"))))
	case reflect.Uint16:
		v.SetUint(uint64(rapid.Uint16().Draw(g.T, g.name("u16"))))
	case reflect.Uint32:
		v.SetUint(uint64(uint32(g.Int32())))
	case reflect.Uint, reflect.Uint64:
		v.SetUint(uint64(g.Int64()))
	case reflect.Float32:
		v.SetFloat(float64(g.Float32()))
	case reflect.Float64:
		v.SetFloat(g.Float64())
	case reflect.String:
		v.SetString(g.String())
	case reflect.Struct:
		if typ == TimeType {
			v.Set(reflect.ValueOf(g.Time()))
			return v
		}
		g.depth++
		for i := 0; i < typ.NumField(); i++ {
			v.Field(i).Set(g.Value(typ.Field(i).Type))
		}
		g.depth--
	case reflect.Ptr:
		et := typ.Elem()
		if et == TimeType {
			// pointer to a timestamp: nil, or a non-zero instant (a zero one is written as null)
			if rapid.IntRange(0, 2).Draw(g.T, g.name("ptrtime")) == 0 {
				return v
			}
			tm := g.Time()
			if tm.IsZero() {
				tm = time.Unix(1, 5e6)
			}
			return reflect.ValueOf(&tm)
		}
		if et.Kind() == reflect.Slice || et.Kind() == reflect.Map {
			// pointer to a container: nil, the same pointer as before, or a fresh one
			k := rapid.IntRange(0, 4).Draw(g.T, g.name("ptrcont"))
			if k == 0 {
				return v
			}
			if k == 1 && g.Cfg.Share && len(g.ptrConts[typ]) > 0 {
				g.lbl("shared-container-pointer")
				return g.ptrConts[typ][rapid.IntRange(0, len(g.ptrConts[typ])-1).Draw(g.T, g.name("ptrcontWhich"))]
			}
			p := reflect.New(et)
			if k == 2 && et.Kind() == reflect.Slice && len(g.ptrConts[typ]) > 0 && g.Cfg.Share {
				// a shorter slice of an earlier one's array: a different list at the same address
				src := g.ptrConts[typ][rapid.IntRange(0, len(g.ptrConts[typ])-1).Draw(g.T, g.name("prefixOf"))].Elem()
				if src.Len() > 1 {
					p.Elem().Set(src.Slice(0, rapid.IntRange(1, src.Len()-1).Draw(g.T, g.name("prefixLen"))))
					g.lbl("prefix-slice-behind-pointer")
					return p
				}
			}
			p.Elem().Set(g.Value(et))
			if g.ptrConts == nil {
				g.ptrConts = map[reflect.Type][]reflect.Value{}
			}
			if p.Elem().Len() > 0 {
				g.ptrConts[typ] = append(g.ptrConts[typ], p)
			}
			return p
		}
		if et.Kind() != reflect.Struct {
			panic("zoo: pointer to non-struct not generated: " + typ.String())
		}
		isNode := nodeTypes[et]
		limit := g.budget <= 0 || g.depth > 12
		k := rapid.IntRange(0, 3).Draw(g.T, g.name("ptrk"))
		if isNode && g.Cfg.Share && len(g.nodes[et]) > 0 && (k == 1 || (limit && k != 0)) {
			idx := rapid.IntRange(0, len(g.nodes[et])-1).Draw(g.T, g.name("share"))
			g.lbl("shared-ptr")
			return g.nodes[et][idx]
		}
		if k == 0 || (limit && isNode) {
			return v // nil
		}
		p := reflect.New(et)
		if isNode {
			g.nodes[et] = append(g.nodes[et], p)
		}
		g.depth++
		for i := 0; i < et.NumField(); i++ {
			p.Elem().Field(i).Set(g.Value(et.Field(i).Type))
		}
		g.depth--
		return p
	case reflect.Slice:
		if typ == BytesType {
			v.SetBytes(g.Bytes())
			return v
		}
		n := g.sliceLen()
		if typ == T(Tree{}) && g.depth > 5 {
			n = 0
		}
		if n == 0 {
			if rapid.Bool().Draw(g.T, g.name("nilslice")) {
				return v
			}
			return reflect.MakeSlice(typ, 0, 0)
		}
		s := reflect.MakeSlice(typ, n, n)
		g.depth++
		for i := 0; i < n; i++ {
			s.Index(i).Set(g.Value(typ.Elem()))
		}
		g.depth--
		return s
	case reflect.Map:
		n := 0
		if g.budget > 0 && !(typ == T(JMap{}) && g.depth > 5) {
			n = rapid.IntRange(0, g.Cfg.Small).Draw(g.T, g.name("maplen"))
			if n == g.Cfg.Small && rapid.IntRange(0, 7).Draw(g.T, g.name("bigmap")) == 0 {
				n = rapid.IntRange(5, 40).Draw(g.T, g.name("maplen"))
			}
		}
		if n == 0 {
			if rapid.Bool().Draw(g.T, g.name("nilmap")) {
				return v
			}
			return reflect.MakeMap(typ)
		}
		m := reflect.MakeMap(typ)
		g.depth++
		for i := 0; i < n; i++ {
			var k reflect.Value
			if typ.Key().Kind() == reflect.Interface {
				k = reflect.New(typ.Key()).Elem()
				k.Set(g.dynKey())
			} else {
				k = g.Value(typ.Key())
			}
			m.SetMapIndex(k, g.Value(typ.Elem()))
		}
		g.depth--
		return m
	case reflect.Interface:
		d := g.Dynamic()
		if d.IsValid() {
			v.Set(d)
		}
	default:
		panic("zoo: kind not generated: " + typ.String())
	}
	return v
}

func (g *G) dynKey() reflect.Value {
	switch rapid.IntRange(0, 3).Draw(g.T, g.name("keyk")) {
	case 0:
		return reflect.ValueOf(g.Int32())
	case 1:
		return reflect.ValueOf(g.Int64())
	case 2:
		return reflect.ValueOf(rapid.Bool().Draw(g.T, g.name("kb")))
	default:
		s := g.String()
		return reflect.ValueOf(s)
	}
}

// Dynamic draws a value for an interface{} slot, always of a type that is its
// own canonical wire type (so "same dynamic type" is well defined): nil, bool,
// int32, int64, float64, string, []byte, time.Time, *struct, []interface{},
// map[interface{}]interface{}, []int32, []string.
func (g *G) Dynamic() reflect.Value {
	v := g.dynamic1()
	if v.IsValid() && (v.Kind() == reflect.Map || v.Kind() == reflect.Slice && v.Type() != BytesType) && v.Len() > 0 {
		g.dynConts = append(g.dynConts, v)
	}
	return v
}

func (g *G) dynamic1() reflect.Value {
	// the same non-empty list or map once more (travels as a back-reference)
	if g.Cfg.Share && len(g.dynConts) > 0 && rapid.IntRange(0, 11).Draw(g.T, g.name("dynAgain")) == 0 {
		g.lbl("shared-container")
		c := g.dynConts[rapid.IntRange(0, len(g.dynConts)-1).Draw(g.T, g.name("dynWhich"))]
		if c.Kind() == reflect.Slice && c.Len() > 1 && rapid.Bool().Draw(g.T, g.name("dynPrefix")) {
			// a shorter slice of the same array: another list at the same address
			return c.Slice(0, rapid.IntRange(1, c.Len()-1).Draw(g.T, g.name("dynPrefixLen")))
		}
		return c
	}
	max := 13
	if g.depth > 4 || g.budget <= 0 {
		max = 8
	}
	switch rapid.IntRange(0, max).Draw(g.T, g.name("dynk")) {
	case 0:
		return reflect.Value{}
	case 1:
		return reflect.ValueOf(rapid.Bool().Draw(g.T, g.name("db")))
	case 2:
		return reflect.ValueOf(g.Int32())
	case 3:
		return reflect.ValueOf(g.Int64())
	case 4:
		return reflect.ValueOf(g.Float64())
	case 5:
		return reflect.ValueOf(g.String())
	case 6:
		b := g.Bytes()
		return reflect.ValueOf(b)
	case 7:
		tm := g.Time()
		return reflect.ValueOf(tm)
	case 8:
		p := g.Value(reflect.PtrTo(T(Inner{})))
		if p.IsNil() {
			return reflect.Value{}
		}
		return p
	case 9, 10:
		kt := KTypes[rapid.IntRange(0, len(KTypes)-1).Draw(g.T, g.name("kt"))]
		p := reflect.New(kt)
		g.depth++
		for i := 0; i < kt.NumField(); i++ {
			p.Elem().Field(i).Set(g.Value(kt.Field(i).Type))
		}
		g.depth--
		return p
	case 11:
		return g.Value(T([]interface{}{}))
	case 12:
		return g.Value(T(map[interface{}]interface{}{}))
	default:
		switch rapid.IntRange(0, 5).Draw(g.T, g.name("dynsl")) {
		case 4:
			return g.Value(T(Digest{})) // a named byte slice: a list of integers under its own name
		case 5:
			return g.Value(T([]Perm{}))
		case 0:
			return g.Value(T([]int32{}))
		case 1:
			return g.Value(T([]string{}))
		case 2:
			m := g.Value(T(NMap{}))
			if m.Len() == 0 {
				return reflect.Value{}
			}
			return m
		default:
			m := g.Value(T(PlainMap{}))
			if m.Len() == 0 {
				return reflect.Value{}
			}
			return m
		}
	}
}

// TopShapes: the top-level shapes of C01.
var topSliceTypes = []reflect.Type{
	T([]Status{}), T([]Label{}), T([]Perm{}), T(Digest{}), T([]Ratio{}), T([]Level{}),
	T([]int32{}), T([]int64{}), T([]float64{}), T([]string{}), T([]bool{}), T([]Inner{}), T([]*Inner{}), T([][]int32{}), T([][]byte{}), T([]time.Time{}), T([]int16{}), T([]uint32{}),
}
var topMapTypes = []reflect.Type{
	T(map[Label]Status{}),
	T(map[interface{}]interface{}{}), T(map[string]int32{}), T(map[string]string{}), T(map[int32]string{}), T(map[string]*Inner{}), T(NMap{}), T(PlainMap{}), T(map[string][]int32{}),
}
var topScalarTypes = []reflect.Type{
	T(Status(0)), T(Label("")), T(Flag(false)), T(Ratio(0)), T(BigID(0)),
	T(true), T(int8(0)), T(int16(0)), T(int32(0)), T(int(0)), T(int64(0)), T(uint8(0)), T(uint16(0)), T(uint32(0)), T(uint(0)), T(uint64(0)), T(float32(0)), T(float64(0)), T(""), T([]byte{}), TimeType,
}

// Top draws a top-level value and names its shape.
func (g *G) Top() (interface{}, string) {
	k := rapid.IntRange(0, 11).Draw(g.T, "topshape")
	switch {
	case k < 4:
		typ := StructTypes[rapid.IntRange(0, len(StructTypes)-1).Draw(g.T, "toptype")]
		v := g.Value(typ)
		return v.Interface(), "struct:" + typ.Name()
	case k < 8:
		typ := StructTypes[rapid.IntRange(0, len(StructTypes)-1).Draw(g.T, "toptype")]
		p := reflect.New(typ)
		if nodeTypes[typ] {
			g.nodes[typ] = append(g.nodes[typ], p)
		}
		for i := 0; i < typ.NumField(); i++ {
			p.Elem().Field(i).Set(g.Value(typ.Field(i).Type))
		}
		return p.Interface(), "ptr:" + typ.Name()
	case k == 8:
		typ := topSliceTypes[rapid.IntRange(0, len(topSliceTypes)-1).Draw(g.T, "toptype")]
		return g.Value(typ).Interface(), "slice:" + typ.String()
	case k == 9:
		return g.Value(T([]interface{}{})).Interface(), "slice:[]interface{}"
	case k == 10:
		typ := topMapTypes[rapid.IntRange(0, len(topMapTypes)-1).Draw(g.T, "toptype")]
		return g.Value(typ).Interface(), "map:" + typ.String()
	default:
		typ := topScalarTypes[rapid.IntRange(0, len(topScalarTypes)-1).Draw(g.T, "toptype")]
		return g.Value(typ).Interface(), "scalar:" + typ.String()
	}
}
