// Package twin declares struct types whose unqualified names equal names of the zoo package
// (zoo.Inner, zoo.Nested, zoo.Scalars) with different layouts: two Go types of one program that
// share a name, extracted one after the other.
package twin

type Leaf struct {
	N int64
	S string
}

type Inner struct {
	X    float64
	Tags []string
	Sub  *Leaf
}

type Nested struct {
	Q []Inner
	M map[string]*Leaf
	I *Inner
}

type Scalars struct {
	Only bool
	Leaf Leaf
}

// PlainMap / Bag: struct types that bear the names of the zoo's named map type PlainMap and named slice type Bag
// (what an encoder learns about the struct must not be taken for the map or list type of the same name).
type PlainMap struct{ A int32 }
type Bag struct{ A int32 }
