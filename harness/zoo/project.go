package zoo

import (
	"fmt"
	"math"
	"reflect"
	"time"
	"unicode"
	"unicode/utf8"

	"verif/harness/av"
)

// Project maps a Go value onto the abstract value a Java peer should see,
// following the property texts (C02): a struct becomes an object whose class is
// nameMap[type name] and whose fields are the Go field names with the first
// letter lower-cased, in declaration order; a slice whose type is registered
// becomes a typed list with the registered name; a named, registered map type a
// typed map; the same pointer / slice / map reached twice is the same node.
//
// It is an independent reflection walk: nothing here calls gohessian.
type projector struct {
	nameMap map[string]string
	ptrs    map[ptrKey]*av.V
	shared  map[*av.V]bool
	err     error
}

type ptrKey struct {
	p   uintptr
	n   int
	typ reflect.Type
}

// ErrUnrepresentable marks values the wire type of their kind cannot carry.
type ErrUnrepresentable struct{ What string }

func (e *ErrUnrepresentable) Error() string { return "unrepresentable: " + e.What }

func Project(v interface{}, nameMap map[string]string) (*av.V, error) {
	p := &projector{nameMap: nameMap, ptrs: map[ptrKey]*av.V{}, shared: map[*av.V]bool{}}
	out := p.walk(reflect.ValueOf(v), false)
	return out, p.err
}

// LowerFirst: "the struct's field names with the first letter lower-cased" - the first letter, whatever alphabet it
// is from (a Go field must begin with an upper-case letter to be exported at all: Ärger, Étage, Ωmega; the peer's
// field is ärger, étage, ωmega).
func LowerFirst(s string) string {
	r, size := utf8.DecodeRuneInString(s)
	if s == "" || r == utf8.RuneError {
		return s
	}
	return string(unicode.ToLower(r)) + s[size:]
}

// TypeName is the key under which gohessian's documentation says a type is
// looked up: its name, or its Go syntax when unnamed.
func TypeName(t reflect.Type) string {
	if t.Name() != "" {
		return t.Name()
	}
	return t.String()
}

func rootIsInterface(t reflect.Type) bool {
	// (a named slice type - type Bag []interface{} - is a type of its own with a registered name, not "a
	// slice of interface values": the descent stops at it)
	for i := 0; i < 64 && t.Name() == "" && (t.Kind() == reflect.Slice || t.Kind() == reflect.Ptr || t.Kind() == reflect.Array); i++ {
		t = t.Elem() // (bounded: type Tree []Tree has no root)
	}
	return t.Kind() == reflect.Interface
}

// ListType reports whether a slice type is written typed, and under what name.
func ListType(t reflect.Type, nameMap map[string]string) (string, bool) {
	n, ok := nameMap[TypeName(t)]
	if !ok || rootIsInterface(t) {
		return "", false
	}
	return n, true
}

func (p *projector) walk(rv reflect.Value, static bool) *av.V {
	n := p.walk1(rv, static)
	if static && n != nil && !n.Static && (n.K == av.List || n.K == av.Map || n.K == av.Binary) && !p.shared[n] {
		n.Static = true
	}
	p.shared[n] = true
	return n
}

func (p *projector) walk1(rv reflect.Value, static bool) *av.V {
	if !rv.IsValid() {
		return av.NullV()
	}
	t := rv.Type()
	switch rv.Kind() {
	case reflect.Interface:
		if rv.IsNil() {
			return av.NullV()
		}
		return p.walk1(rv.Elem(), false)
	case reflect.Ptr:
		if rv.IsNil() {
			return av.NullV()
		}
		if rv.Elem().Kind() == reflect.Struct && rv.Elem().Type() != TimeType {
			key := ptrKey{rv.Pointer(), 0, t}
			if n, ok := p.ptrs[key]; ok {
				return n
			}
			n := &av.V{K: av.Object, Ord: -1}
			p.ptrs[key] = n
			p.fillObject(n, rv.Elem())
			return n
		}
		return p.walk1(rv.Elem(), static)
	case reflect.Bool:
		return av.BoolV(rv.Bool())
	case reflect.Int8, reflect.Int16, reflect.Int32:
		return av.IntV(int32(rv.Int()))
	case reflect.Int:
		i := rv.Int()
		if i < math.MinInt32 || i > math.MaxInt32 {
			p.err = &ErrUnrepresentable{fmt.Sprintf("int %d as 32-bit wire int", i)}
		}
		return av.IntV(int32(i))
	case reflect.Uint8, reflect.Uint16:
		return av.IntV(int32(rv.Uint()))
	case reflect.Int64:
		return av.LongV(rv.Int())
	case reflect.Uint, reflect.Uint32, reflect.Uint64:
		return av.LongV(int64(rv.Uint()))
	case reflect.Float32, reflect.Float64:
		return av.DoubleV(rv.Float())
	case reflect.String:
		return av.StringV(rv.String())
	case reflect.Struct:
		if t == TimeType {
			tm := rv.Interface().(time.Time)
			if tm.IsZero() {
				return av.NullV()
			}
			return av.DateV(FloorMilli(tm))
		}
		n := &av.V{K: av.Object, Ord: -1}
		p.fillObject(n, rv)
		return n
	case reflect.Slice:
		if t == BytesType {
			b := rv.Bytes()
			if b == nil {
				b = []byte{}
			}
			return av.BinaryV(b)
		}
		var key ptrKey
		if rv.Len() > 0 {
			key = ptrKey{rv.Pointer(), rv.Len(), t}
			if n, ok := p.ptrs[key]; ok {
				return n
			}
		}
		n := &av.V{K: av.List, Ord: -1}
		if rv.Len() > 0 {
			p.ptrs[key] = n
		}
		if name, ok := ListType(t, p.nameMap); ok {
			n.Typed, n.Type = true, name
		}
		for i := 0; i < rv.Len(); i++ {
			// the decoder knows the element type when it knows the list's Go type: from a
			// struct field chain (static) or from the wire type name (typed)
			n.Elems = append(n.Elems, p.walk(rv.Index(i), (static || n.Typed) && t.Elem().Kind() != reflect.Interface))
		}
		return n
	case reflect.Map:
		if rv.IsNil() || rv.Len() == 0 {
			n := av.NullV()
			n.EmptyMap = static
			return n
		}
		key := ptrKey{rv.Pointer(), 0, t}
		if n, ok := p.ptrs[key]; ok {
			return n
		}
		n := &av.V{K: av.Map, Ord: -1}
		p.ptrs[key] = n
		if name, ok := p.nameMap[t.Name()]; ok && t.Name() != "" {
			n.Typed, n.Type = true, name
		}
		it := rv.MapRange()
		for it.Next() {
			known := static || n.Typed
			n.Elems = append(n.Elems, p.walk(it.Key(), known && t.Key().Kind() != reflect.Interface), p.walk(it.Value(), known && t.Elem().Kind() != reflect.Interface))
		}
		return n
	}
	p.err = &ErrUnrepresentable{"kind " + rv.Kind().String()}
	return av.NullV()
}

func (p *projector) fillObject(n *av.V, sv reflect.Value) {
	t := sv.Type()
	n.Type = t.Name()
	if cn, ok := p.nameMap[t.Name()]; ok {
		n.Type = cn
	}
	for i := 0; i < t.NumField(); i++ {
		n.Fields = append(n.Fields, LowerFirst(t.Field(i).Name))
		fresh := len(p.shared)
		c := p.walk(sv.Field(i), t.Field(i).Type.Kind() != reflect.Interface)
		if len(p.shared) > fresh && (c.K == av.Map || c.K == av.List || c.K == av.Binary) {
			c.Field = true
		}
		n.Elems = append(n.Elems, c)
	}
}

// FloorMilli: milliseconds since the epoch, rounded toward minus infinity.
func FloorMilli(tm time.Time) int64 {
	s := tm.Unix()
	ns := int64(tm.Nanosecond())
	return s*1000 + ns/1e6
}

// Describe renders a Go value for evidence samples and messages.
func Describe(v interface{}, max int) string {
	a, err := Project(v, nil)
	s := fmt.Sprintf("%T ", v) + av.Short(a, max)
	if err != nil {
		s += " (" + err.Error() + ")"
	}
	return s
}
