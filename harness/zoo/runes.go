package zoo

import "unicode"

var asciiTable = &unicode.RangeTable{R16: []unicode.Range16{{Lo: 0x20, Hi: 0x7e, Stride: 1}}, LatinOffset: 1}
var twoByteTable = &unicode.RangeTable{R16: []unicode.Range16{{Lo: 0x80, Hi: 0x7ff, Stride: 1}}}
var threeByteTable = &unicode.RangeTable{R16: []unicode.Range16{{Lo: 0x800, Hi: 0xd7ff, Stride: 1}, {Lo: 0xe000, Hi: 0xfffd, Stride: 1}}}
var fourByteTable = &unicode.RangeTable{R32: []unicode.Range32{{Lo: 0x10000, Hi: 0x10ffff, Stride: 1}}}

// RuneOfClass returns a fixed representative of each UTF-8 width class.
func RuneOfClass(c int) rune {
	switch c {
	case 0:
		return 'a'
	case 1:
		return 0xe9 // é
	case 2:
		return 0x4f60 // 你
	default:
		return 0x1f600 // 😀
	}
}
