// Package zoo declares the Go types the properties quantify over, the
// type-directed generators for them, and the independent projection of a Go
// value onto the abstract value model.
//
// Every type name is unique across the zoo because gohessian keys its name map
// by the unqualified type name.
package zoo

import (
	"reflect"
	"time"
)

// ---- scalars: every field kind (C01, C07, C08, C09, C10)

type Scalars struct {
	B   bool
	I8  int8
	I16 int16
	I32 int32
	I   int
	I64 int64
	U8  uint8
	U16 uint16
	U32 uint32
	U   uint
	U64 uint64
	F32 float32
	F64 float64
	S   string
	Bin []byte
	T   time.Time
}

// Inner is the small leaf class used inside containers.
type Inner struct {
	A int32
	S string
}

// Embedded: "named structs with exported fields including embedded ones".
type Embedded struct {
	Inner
	X int32
	Y string
}

// Nested: struct by value, pointer to struct, nil pointer.
type Nested struct {
	V Inner
	P *Inner
	Q *Inner
	N int32
	E Embedded
}

// ---- one slice kind per struct, so each element kind is exercised alone

type SlBool struct{ L []bool }
type SlI8 struct{ L []int8 }
type SlI16 struct{ L []int16 }
type SlI32 struct{ L []int32 }
type SlInt struct{ L []int }
type SlI64 struct{ L []int64 }
type SlU16 struct{ L []uint16 }
type SlU32 struct{ L []uint32 }
type SlUint struct{ L []uint }
type SlU64 struct{ L []uint64 }
type SlF32 struct{ L []float32 }
type SlF64 struct{ L []float64 }
type SlStr struct{ L []string }
type SlBin struct{ L [][]byte }
type SlTime struct{ L []time.Time }
type SlVal struct{ L []Inner }
type SlPtr struct{ L []*Inner }

// Slices: all of them together (the element-type names "[int" collide on purpose,
// as in the repository's own NumS test type).
type Slices struct {
	Bo  []bool
	I16 []int16
	I32 []int32
	I   []int
	I64 []int64
	U16 []uint16
	U64 []uint64
	F32 []float32
	F64 []float64
	S   []string
	Vs  []Inner
	Ps  []*Inner
}

// ---- slices of slices

type SlSlI32 struct{ L [][]int32 }
type SlSlStr struct{ L [][]string }
type SlSlVal struct{ L [][]Inner }

// ---- map shapes

type MpStrStr struct{ M map[string]string }
type MpStrI32 struct{ M map[string]int32 }
type MpStrInt struct{ M map[string]int }
type MpStrI64 struct{ M map[string]int64 }
type MpStrF64 struct{ M map[string]float64 }
type MpStrBool struct{ M map[string]bool }
type MpI32Str struct{ M map[int32]string }
type MpI64F64 struct{ M map[int64]float64 }
type MpStrVal struct{ M map[string]Inner }
type MpStrPtr struct{ M map[string]*Inner }
type MpStrSl struct{ M map[string][]int32 }
type MpStrMp struct{ M map[string]map[string]string }
type SlMp struct{ L []map[string]int32 }

// ---- interface-typed containers

type AnyList struct {
	N int32
	L []interface{}
}
type AnyMap struct {
	M map[interface{}]interface{}
}

// ---- custom names (HessianCodecName)

type CN1 struct {
	A int32
	B string
}

func (CN1) HessianCodecName() string { return "com.example.CN1" }

type CN2 struct {
	X CN1
	P *CN1
	L []CN1
	S string
}

func (CN2) HessianCodecName() string { return "com.example.CN2" }

// NMap: a named map type with a custom wire name ('M' type ...).
type NMap map[string]*CN1

func (NMap) HessianCodecName() string { return "com.example.NMap" }

// PlainMap: a named map type without custom name.
type PlainMap map[string]int32

type NMapHolder struct {
	T string
	M NMap
}

// ---- twenty trivially different classes, to reach class index 2, 15, 16, 19

type K00 struct{ A int32 }
type K01 struct{ A string }
type K02 struct{ A int64 }
type K03 struct{ A bool }
type K04 struct{ A float64 }
type K05 struct{ A, B int32 }
type K06 struct{ A []byte }
type K07 struct{ A []int32 }
type K08 struct{ A *K00 }
type K09 struct{ A int16 }
type K10 struct{ A uint16 }
type K11 struct {
	A string
	B int32
}
type K12 struct{ A int32 }
type K13 struct{ A float32 }
type K14 struct{ A int8 }
type K15 struct{ A uint32 }
type K16 struct{ A string }
type K17 struct{ A int32 }
type K18 struct{ A int64 }
type K19 struct {
	A string
	B string
}

// ManyF holds one pointer per class: which classes appear, and in which order
// their definitions are emitted, follows from which fields are non-nil.
type ManyF struct {
	P00  *K00
	P01  *K01
	P02  *K02
	P03  *K03
	P04  *K04
	P05  *K05
	P06  *K06
	P07  *K07
	P08  *K08
	P09  *K09
	P10  *K10
	P11  *K11
	P12  *K12
	P13  *K13
	P14  *K14
	P15  *K15
	P16  *K16
	P17  *K17
	P18  *K18
	P19  *K19
	Tail []*K19
}

// ManyL holds instances of many classes in an untyped list and a map.
type ManyL struct {
	Items []interface{}
}

var KTypes = []reflect.Type{
	reflect.TypeOf(K00{}), reflect.TypeOf(K01{}), reflect.TypeOf(K02{}), reflect.TypeOf(K03{}), reflect.TypeOf(K04{}),
	reflect.TypeOf(K05{}), reflect.TypeOf(K06{}), reflect.TypeOf(K07{}), reflect.TypeOf(K08{}), reflect.TypeOf(K09{}),
	reflect.TypeOf(K10{}), reflect.TypeOf(K11{}), reflect.TypeOf(K12{}), reflect.TypeOf(K13{}), reflect.TypeOf(K14{}),
	reflect.TypeOf(K15{}), reflect.TypeOf(K16{}), reflect.TypeOf(K17{}), reflect.TypeOf(K18{}), reflect.TypeOf(K19{}),
}

// ---- graph node types (C04, C16)

// Node: pointer, slice-of-pointer and map-of-pointer edges.
type Node struct {
	Id int32
	A  *Node
	B  *Node
	Ls []*Node
	Mp map[string]*Node
}

// FNode: filler fields of every non-container-registering kind in front of the
// pointer fields.
type FNode struct {
	Id   int32
	FM   map[string]int32
	FS   []int32
	FS2  []string
	FT   time.Time
	FPT  *time.Time
	FStr string
	FBin []byte
	FP   *Inner
	KM   map[*Inner]int32 // a map whose keys are objects
	IV   []Inner          // []T and []*T of one struct share a list type name
	IP   []*Inner
	A    *FNode
	B    *FNode
	MLs  map[string][]*FNode // slices met inside a container before the plain slice field below
	LLs  [][]*FNode
	Ls   []*FNode
	Mp   map[string]*FNode
	PLs  *[]*FNode
}

// Ping/Pong: mutually recursive.
type Ping struct {
	N    int32
	Pong *Pong
}
type Pong struct {
	S     string
	Ping  *Ping
	Pings []*Ping
}

// ENode: a recursive type that embeds another struct.
type ENode struct {
	Inner
	Next *ENode
}

// DeepNil: structs reachable only through pointers and containers (C16).
type DeepNil struct {
	P  *Nested
	L  []*Embedded
	M  map[string]*CN1
	LL [][]*Inner
}

// T reports reflect.Type of a zero value.
func T(v interface{}) reflect.Type { return reflect.TypeOf(v) }

// StructTypes is the list of zoo types usable as a top-level struct value.
var StructTypes = []reflect.Type{
	T(Scalars{}), T(Inner{}), T(Embedded{}), T(Nested{}),
	T(SlBool{}), T(SlI8{}), T(SlI16{}), T(SlI32{}), T(SlInt{}), T(SlI64{}), T(SlU16{}), T(SlU32{}), T(SlUint{}), T(SlU64{}),
	T(SlF32{}), T(SlF64{}), T(SlStr{}), T(SlBin{}), T(SlTime{}), T(SlVal{}), T(SlPtr{}), T(Slices{}),
	T(SlSlI32{}), T(SlSlStr{}), T(SlSlVal{}),
	T(MpStrStr{}), T(MpStrI32{}), T(MpStrInt{}), T(MpStrI64{}), T(MpStrF64{}), T(MpStrBool{}), T(MpI32Str{}), T(MpI64F64{}),
	T(MpStrVal{}), T(MpStrPtr{}), T(MpStrSl{}), T(MpStrMp{}), T(SlMp{}),
	T(AnyList{}), T(AnyMap{}),
	T(CN1{}), T(CN2{}), T(NMapHolder{}),
	T(ManyF{}), T(ManyL{}),
	T(Node{}), T(FNode{}), T(Ping{}), T(Pong{}), T(ENode{}), T(DeepNil{}),
	T(MapAndLists{}), T(Wrap{}), T(WrapList{}), T(PtrTime{}), T(Named{}), T(SelfAny{}), T(SelfAnyList{}), T(PtrConts{}), T(MutA{}), T(MutB{}), T(MpKeyStruct{}), T(MutGraph{}), T(NonASCII{}), T(RecConts{}), T(AmpTop{}), T(AmpN{}), T(FloatMix{}), T(Forest{}), T(CaseTwins{}), T(Bags{}), T(PtrNamed{}), T(PtrNamedOrder{}), T(PtrNamedPair{}), T(NonASCIIFirst{}), T(IntMix{}), T(Empty{}), T(NumMaps{}), T(BaseEnt{}), T(PlainEnt{}), T(AccountEnt{}), T(PtrBaseEnt{}), T(Ents{}), T(PtrAccountEnt{}), T(Ents2{}), T(Time{}), T(Location{}), T(Event{}), T(NamedLists{}), T(StrMix{}), T(TimeMix{}), T(Color{}), T(Pair{}), T(Envelope{}), T(Empty2{}), T(Markers{}), T(UserID{}), T(UserId{}), T(CaseClasses{}), T(Block{}), T(Coded{}),
}

// TypeByName finds a zoo struct type.
func TypeByName(n string) reflect.Type {
	for _, t := range StructTypes {
		if t.Name() == n {
			return t
		}
	}
	for _, t := range KTypes {
		if t.Name() == n {
			return t
		}
	}
	return nil
}

var TimeType = reflect.TypeOf(time.Time{})

// ---- carriers for C07: every Go integer kind in every position

type IntFields struct {
	I8  int8
	I16 int16
	I32 int32
	I   int
	I64 int64
	U8  uint8
	U16 uint16
	U32 uint32
	U   uint
	U64 uint64
}

type IntLists struct {
	I8  []int8
	I16 []int16
	I32 []int32
	I   []int
	I64 []int64
	U16 []uint16
	U32 []uint32
	U   []uint
	U64 []uint64
}

type IntMapKeys struct {
	I8  map[int8]string
	I16 map[int16]string
	I32 map[int32]string
	I   map[int]string
	I64 map[int64]string
	U8  map[uint8]string
	U16 map[uint16]string
	U32 map[uint32]string
	U   map[uint]string
	U64 map[uint64]string
}

type IntMapVals struct {
	I8  map[string]int8
	I16 map[string]int16
	I32 map[string]int32
	I   map[string]int
	I64 map[string]int64
	U8  map[string]uint8
	U16 map[string]uint16
	U32 map[string]uint32
	U   map[string]uint
	U64 map[string]uint64
}

// ---- carriers for C08

// RateMap / FloatMix: a typed map in front of two list types of different float width, the wider one twice
// (type names of lists and maps share one numbering on the wire).
type RateMap map[string]float64

type FloatMix struct {
	Rates RateMap
	Ticks []float32
	Bid   []float64
	Ask   []float64
	Last  []float32
}

type FloatFields struct {
	F32 float32
	F64 float64
	L32 []float32
	L64 []float64
	M64 map[string]float64
	M32 map[string]float32
}

// ---- carriers for C09

type StrCarrier struct {
	S  string
	L  []string
	MK map[string]int32
	MV map[string]string
	A  []interface{}
}

type BinCarrier struct {
	B  []byte
	L  [][]byte
	MV map[string][]byte
	A  []interface{}
}

// ---- carriers for C10

type TimeCarrier struct {
	T   time.Time
	L   []time.Time
	M   map[string]time.Time
	A   []interface{}
	T2  time.Time
	PT1 *time.Time
	PT2 *time.Time
	P1  *Inner
	P2  *Inner
	LP  []*time.Time
}

// ---- carriers for C05 (3, 4, 5 and 9 fields; scalar, string, list, nested-object fields)

type F3 struct {
	A int32
	B string
	C float64
}

type F4 struct {
	A int64
	B []int32
	C *Inner
	D bool
}

type F5 struct {
	A int32
	B string
	C []string
	D Inner
	E []byte
}

type F9 struct {
	A int32
	B string
	C map[string]int32
	D time.Time
	E uint16
	F []*Inner
	G float32
	H int64
	I []interface{}
}

var FTypes = []reflect.Type{reflect.TypeOf(F3{}), reflect.TypeOf(F4{}), reflect.TypeOf(F5{}), reflect.TypeOf(F9{}), reflect.TypeOf(NonASCII{})}

// ---- types added for specific mechanisms

// MapAndLists: a typed (named) map in front of the same list type several times:
// map types and list types share one type list on the wire.
type MapAndLists struct {
	M  NMap
	A  []int32
	B  []int32
	PM PlainMap
	C  [][]int32
	D  []string
	E  []string
}

// Wrap: the first field is a struct from which interface slots are reachable
// (a struct and its first field share their address).
type Wrap struct {
	Head AnyList
	X    int32
}

type WrapList struct {
	L []*Wrap
	W Wrap
}

// PtrTime: pointer to a timestamp in front of shared containers.
type PtrTime struct {
	T *time.Time
	A *Inner
	B *Inner
}

// ---- named basic types (enums, labels): the kind is supported, the type is not the basic type

type Status int32
type Level int8
type BigID uint64
type Label string
type Flag bool
type Ratio float64
type Small float32

type Perm uint8
type Digest []byte // a named byte slice is a list of integers on the wire, only []byte itself is binary

// BytesType is the one Go type that travels as binary.
var BytesType = reflect.TypeOf([]byte(nil))

// NamedLists: lists whose element type is a named basic type, of every kind.
type NamedLists struct {
	P  []Perm
	D  Digest
	R  []Ratio
	Sm []Small
	F  []Flag
	ID []BigID
	Lv []Level
	PM map[string][]Perm
	B  []byte
}

type Named struct {
	St Status
	Lv Level
	ID BigID
	L  Label
	F  Flag
	R  Ratio
	Sm Small
	Ls []Status
	Ll []Label
	M  map[Label]Status
	MV map[string]Ratio
}

// SelfAny / SelfAnyList: self-referential types from which an interface slot is reachable.
type SelfAny struct {
	Next *SelfAny
	X    []interface{}
	N    int32
}

type SelfAnyList struct {
	L []SelfAnyList
	M map[string]interface{}
	P *SelfAny
}

// ---- pointers to containers and named slice types (the repository's own ref tests use both)

type InnerList []*Inner

type PtrConts struct {
	Likes *InnerList
	Marks *map[string]*Inner
	Nums  *[]int32
	Nums2 *[]int32
	Same  *map[string]*Inner
	Tags  map[string]*Inner
	IL    InnerList
}

// Tree / JMap: recursive container types (a list of lists of ..., a map of maps of ...).
type Tree []Tree
type JMap map[string]JMap

// PTree recurses through a pointer.
type PTree []*PTree

// ---- mutually recursive types with an interface slot; a struct-keyed map

type MutA struct {
	B *MutB
	X []interface{}
	N int32
}
type MutB struct {
	A  *MutA
	As []*MutA
}

type KeyT struct {
	A int32
	S string
}
type MpKeyStruct struct {
	M map[KeyT]string
	N int32
}

// MutGraph: both node types of the mutually recursive pair are reachable directly.
type MutGraph struct {
	As []*MutA
	Bs []*MutB
}

// NonASCII: field and class names outside ASCII (string lengths count characters, not octets).
type NonASCII struct {
	Größe  int32
	Naïve  string
	Zażółć []string
	Name日本 *Inner
}

// RecConts: recursive container types as struct fields.
type RecConts struct {
	T Tree
	J JMap
	N int32
}

// BaseEnt / PlainEnt / AccountEnt / PtrBaseEnt: a struct with a wire name of its own embedded in structs that
// declare none (they keep their Go names: the promoted method speaks for the embedded type) or their own.
type BaseEnt struct{ ID int32 }

func (BaseEnt) HessianCodecName() string { return "com.example.BaseEnt" }

type PlainEnt struct {
	BaseEnt
	M int32
}

type AccountEnt struct {
	BaseEnt
	N string
}

func (AccountEnt) HessianCodecName() string { return "com.example.AccountEnt" }

type PtrBaseEnt struct {
	*BaseEnt
	K int32
}

// PtrAccountEnt declares a wire name of its own AND embeds a custom-named struct by pointer: with that pointer
// nil (the zero witness, TypeMapOf) its own name must still be found.
type PtrAccountEnt struct {
	*BaseEnt
	N string
}

func (PtrAccountEnt) HessianCodecName() string { return "com.example.PtrAccountEnt" }

// Ents2 holds it by pointer, by value and in an interface slot.
type Ents2 struct {
	PA *PtrAccountEnt
	V  PtrAccountEnt
	L  []interface{}
}

// Ents holds all of them side by side.
type Ents struct {
	B  BaseEnt
	P  *PlainEnt
	A  AccountEnt
	PB *PtrBaseEnt
	L  []interface{}
}

// Bag / Bag2 / Bags: named slice types whose elements are interface slots, with and without a wire name of
// their own (java.util.LinkedList on the Java side).
type Bag []interface{}

func (Bag) HessianCodecName() string { return "java.util.LinkedList" }

type Bag2 []interface{}

type Bags struct {
	B  Bag
	L  []interface{}
	B2 Bag2
	BB []Bag2
}

// Shape / Circle / Square / Layer / Drawing: slots of a NAMED interface type (not generated by G.Value: used by
// C16's fixed cases).
type Shape interface{ Area() float64 }

type Circle struct{ R float64 }

func (Circle) Area() float64 { return 3 * 0 }

type Square struct{ S float64 }

func (Square) Area() float64            { return 0 }
func (Square) HessianCodecName() string { return "com.example.Square" }

type Triangle struct{ A, B, C float64 }

func (*Triangle) Area() float64 { return 0 }

type Layer struct {
	Shapes []Shape
	ByName map[string]Shape
}

type Drawing struct {
	Layers []Layer
	Top    *Layer
}

// NonASCIIFirst: exported fields whose names BEGIN with a non-ASCII upper-case letter (the first letter is what
// encoder and decoder treat specially), scalars and edges of a graph alike.
type NonASCIIFirst struct {
	Ärger int32
	Étage string
	Ωmega []*Inner
	Élan  *Inner
	Öl    map[string]*Inner
	Z     int32
}

// IntMix: a typed map in front of list types of different integer widths, the widest twice (list and map type
// names share one numbering on the wire).
type CounterMap map[string]int32

type IntMix struct {
	Counters CounterMap
	A        []int16
	B        []int64
	C        []int64
	D        []int16
}

// Empty has no fields at all: every field of a wire definition is unknown to it.
type Empty struct{}

// NumMaps: maps nested in typed containers whose key and value have the same numeric type (converted entry by
// entry into the typed destination).
type NumMaps struct {
	A map[string]map[int]int
	B []map[uint16]uint16
	C map[string]map[float32]float32
	D []map[int64]int64
	E map[string]map[uint64]uint64
}

// PtrNamed declares HessianCodecName on the pointer receiver: a value of the type does not have the method,
// a pointer to it does.
type PtrNamed struct{ A int32 }

func (*PtrNamed) HessianCodecName() string { return "com.example.PtrNamed" }

// PtrNamedOrder embeds the type whose name is declared on the pointer receiver: whatever the library makes of such a
// declaration, the promoted method is not the outer type's own name. PtrNamedPair holds both side by side.
type PtrNamedOrder struct {
	PtrNamed
	X int32
}
type PtrNamedPair struct {
	O  *PtrNamedOrder
	B  PtrNamed
	P  *PtrNamed
	L  []interface{}
	Os []PtrNamedOrder
}

// CaseTwins: exported fields that differ only in the case of a later letter (their wire names differ too:
// only the first letter is lower-cased).
type CaseTwins struct {
	URL    string
	Url    string
	HitsID int32
	HitsId int64
	Ab     bool
	AB     []int32
}

// Forest: slices and maps OF recursive container types (their list type names are derived entries of
// the extracted maps).
type Forest struct {
	Trees []Tree
	Js    []JMap
	M     map[string]Tree
}

// AmpTop / AmpN: every element of a list refers back to the list (queued destinations).
type AmpTop struct{ L []*AmpN }
type AmpN struct{ R []interface{} }

// Pair: runs of fields of one declared type from each of which interface slots are reachable.
type Envelope struct{ Body []interface{} }

type Pair struct {
	Left, Right   *SelfAny
	Args, Extras  []interface{}
	Req, Resp     Envelope
	First, Second map[string]interface{}
}

// Empty2 / Markers: two struct types without content (all their values sit at one address without being one object).
type Empty2 struct{}

type Markers struct {
	A *Empty
	B *Empty2
	C Empty
	D Empty2
	L []interface{}
	N int32
}

// UserID / UserId: two classes whose names differ only in case.
type UserID struct{ A int32 }
type UserId struct{ B string }

type CaseClasses struct {
	A *UserID
	B *UserId
	C []UserId
	D []UserID
}

// Block: octets of named types (lists of integers on the wire) in front of shared pointers.
type Block struct {
	Hash   Digest
	Perms  []Perm
	Parent *Block
	Uncle  *Block
	Kids   []*Block
	N      int32
}

// Code / Coded: maps keyed by named integer types, of both widths, in struct fields.
type Code int64

type Coded struct {
	ByStatus map[Status]string
	ByCode   map[Code]string
	ByID     map[BigID]int32
	U        uint64
	V        uint
}

// Color: the shape of a Java enum constant on the wire (one field, "name").
type Color struct{ Name string }

// StrMix / TimeMix: maps keyed by a named string type, and a map of a named (wire-typed) map type in front of
// two lists of one type.
type Dict map[string]string
type Stamps map[string]time.Time

type StrMix struct {
	Tags  map[Label]string
	Attrs Dict
	Names []string
	Alias []string
	Blobs [][]byte
	More  [][]byte
}

type TimeMix struct {
	Attrs  Stamps
	Opened []time.Time
	Closed []time.Time
}

// ---- version skew through the Go encoder itself: a peer that runs a newer version of a class sends fields the
// receiver's version does not have, of every kind, between the ones it has.

type SkewNew struct {
	A   int32
	X1  float64
	B   string
	X2  time.Time
	X3  string
	C   []int32
	X4  *Inner
	D   *Inner
	X5  []string
	X6  map[string]int32
	E   int64
	X7  float32
	X8  []byte
	X9  int64
	X10 bool
	X11 []*Inner
	F   []*Inner
	X12 []float64
	X13 []time.Time
	G   string
	U   uint64
	X14 uint64
	V   uint
}

type SkewOld struct {
	A int32
	B string
	C []int32
	D *Inner
	E int64
	F []*Inner
	G string
	U uint64
	V uint
}

// ---- Round 9: two Go types that go by ONE class name (two entries of a name map pointing at one class,
// or equally named types of two packages). The encoder may keep nothing by class name alone: the
// definitions, field lists and field kinds of the two differ. Not part of the random zoo; used by the
// directed cases of C02, C07, C11 and C13.
type AcctV1 struct {
	ID   int32
	Name string
	Note string
}

type AcctV2 struct {
	Name string
	ID   int64
	Tags []string
}

// AcctBad has a channel where AcctV1 has a string.
type AcctBad struct {
	ID   int32
	Name chan string
	Note string
}

// IntFieldsWide: the field names of IntFields, every field 64 bits wide.
type IntFieldsWide struct {
	I8  int64
	I16 int64
	I32 int64
	I   int64
	I64 int64
	U8  uint64
	U16 uint64
	U32 uint64
	U   uint64
	U64 uint64
}

// OneClassName is the name map under which the types above share their class names.
func OneClassName() map[string]string {
	return map[string]string{"AcctV1": "com.bank.Account", "AcctV2": "com.bank.Account", "AcctBad": "com.bank.Account",
		"IntFields": "com.bank.Ints", "IntFieldsWide": "com.bank.Ints"}
}

// InFirst / OutFirst: a pointer to the FIRST field of the struct that holds it (same address, same kind, another
// type). Interior pointers are not part of the random zoo; this one is the witness of a repaired defect.
type InFirst struct{ X int32 }
type OutFirst struct {
	In InFirst
	P  *InFirst
}

// Props: a NAMED type whose underlying type is the type an untyped map decodes to. A list of such maps is a typed
// destination that a decoded map[interface{}]interface{} is assignable to without being of that type (C14).
type Props map[interface{}]interface{}

// EmptyNamed declares the empty string as its wire name, which declares nothing: it travels under its Go name.
// Witness of a repaired defect (extraction panicked); not part of the random zoo.
type EmptyNamed struct {
	A int32
	L []int32
}

func (EmptyNamed) HessianCodecName() string { return "" }

type EmptyNamedHolder struct {
	X *EmptyNamed
	M map[string]int32
}

// Time / Location / Event: structs of the caller's that bear the names of time.Time and time.Location, next to
// timestamps (the extraction used to walk into time.Time and register its parts under those names).
type Time struct{ Label string }
type Location struct{ City string }
type Event struct {
	At time.Time
	X  Time
	L  *Location
	Ts []time.Time
	Xs []*Time
}
