#!/usr/bin/env python3
"""Regenerates MANIFEST.json from props.json (one entry per claimed property)."""
import json, os
here = os.path.dirname(os.path.abspath(__file__))
props = json.load(open(os.path.join(here, "props.json")))
level_text = {
 "C01": "Generated-input search (rapid, type-directed over a 50-type zoo with stratified container lengths) against a round-trip oracle with a normalising comparator; no absence claim.",
 "C02": "Generated values; the emitted bytes are judged by an independent reference decoder written from the grammar and compared, as a graph, with an independent projection of the Go value.",
 "C03": "Differential: a reference encoder enumerates (small values, complete choice tree) or samples (random values) every encoding alternative of the grammar; decode must agree with the decode of the encoder's own rendering.",
 "C04": "Exhaustive enumeration of all pointer graphs up to 3 (quick) / 4 (thorough) nodes x 8 filler layouts plus random graphs to 200 nodes; graph-bijection oracle and reference-decoder ordinal check.",
 "C05": "Enumeration of all field permutations / subsets / unknown-field insertions / case patterns / class indices plus random multi-class streams written by the reference encoder; by-name binding oracle.",
 "C06": "Model-based sequences on one stream; model = written values and end offsets; byte-counting reader without read-ahead; carrier screen.",
 "C07": "Exhaustive over all 2^32 int32 values (thorough) and dense windows/samples (quick), all ten Go integer kinds x four positions; oracle = exact value, shortest form from the format's ranges, reference decode.",
 "C08": "Exhaustive over all 2^32 float32 patterns widened (thorough), integers, powers of two, random 64-bit patterns; oracle = same number back, shortest exact form, reference decode.",
 "C09": "Every length across three chunk boundaries x content classes, wide code points at every offset around boundaries; oracle = exact content in five positions + reference decoder on chunk prefixes and UTF-8 integrity.",
 "C10": "Boundary instants and uniform milliseconds over years 1..9999 in five positions; oracle = Equal at millisecond resolution.",
 "C11": "Model-based histories on one instance followed by a probe compared with a fresh instance; input snapshots before/after.",
 "C12": "Randomised concurrent workloads (2..64 goroutines, own or pooled instances, shared complete maps and inputs) compared with sequential results, under the Go race detector. Schedules are sampled, not enumerated.",
 "C13": "Enumeration of every interface-typed position of generated base values x 16 unsupported kinds; oracle = non-nil error, no panic.",
 "C14": "Random, prefix, structure-aware and byte-level hostile inputs against 6 entry points x 3 type maps in an isolated worker process with address-space limit; oracle = returns, no panic, allocation bounded by input size.",
 "C15": "Fault enumeration: every Write call index of every generated value x four fault kinds x four entry points; oracle = non-nil error.",
 "C16": "All zoo types x witness fill levels; oracle = independent visited-set type walk for closure/consistency, termination, and round trip of a second value with the witness's maps.",
 "C17": "Model-based Get/Return sequences on pools of size 0..8 (three factories) with wait-state based blocking detection, plus concurrent rounds with an ownership table under the race detector.",
}
technique = {
 "C01": "property-based testing (rapid): round-trip oracle",
 "C02": "property-based testing (rapid): independent reference decoder + projection oracle",
 "C03": "property-based testing: differential against a reference encoder, exhaustive choice-tree enumeration + rapid",
 "C04": "exhaustive small-graph enumeration + property-based random graphs, graph-bijection oracle",
 "C05": "enumeration + property-based testing against reference-encoded class definitions",
 "C06": "model-based (stateful) property testing on one stream",
 "C07": "exhaustive enumeration of int32 + boundary/sampled int64, shortest-form oracle",
 "C08": "exhaustive enumeration of float32 patterns + sampled float64, shortest-form oracle",
 "C09": "enumeration of all lengths across chunk boundaries x content classes, round-trip + reference decoder",
 "C10": "boundary + uniformly sampled instants, round-trip oracle",
 "C11": "model-based (stateful) property testing: used instance vs fresh instance",
 "C12": "randomised concurrent workloads vs sequential oracle under the Go race detector",
 "C13": "position x kind fault enumeration over generated values",
 "C14": "structure-aware mutation fuzzing with process isolation and allocation oracle",
 "C15": "fault injection: exhaustive enumeration of failing Write calls per generated value",
 "C16": "property-based testing with an independent type-walk oracle",
 "C17": "model-based (stateful) property testing + concurrent rounds under the race detector",
}
checks = []
for pid in sorted(props):
    c = props[pid]
    checks.append({
        "property_id": pid,
        "quick_cmd": "./check %s quick" % pid,
        "thorough_cmd": "./check %s thorough" % pid,
        "evidence_file": "evidence/%s.json" % pid,
        "replay_cmd_template": "./check %s --replay {path}" % pid,
        "engine": "harness",
        "level_claimed": {"category": c["level"], "text": level_text[pid], "design_ref": "DESIGN.md section 3, " + pid},
        "level_note": "Trusted base: the harness under /verif/harness (abstract value model, reference codec written from the grammar, zoo generators, comparator), pgregory.net/rapid v1.3.0, the Go toolchain" + (" and race detector" if c.get("race") else "") + ". " + " ".join(c.get("assumptions", [])),
        "technique": technique[pid],
    })
m = {
 "version": 1,
 "setup_cmd": "./check --setup",
 "hooks": {
  "guard": "verif",
  "enable": "the harness test binary is built with -tags verif from /verif/harness, whose go.mod replaces github.com/vogo/gohessian with /repo; no hook or instrumentation code was added to /repo (every property is observable at the public API)",
  "baseline_off_cmd": "cd /repo && go test -mod=mod -vet=off -count=1 ./...",
  "source_commits": [],
  "add_only": True,
 },
 "engines": [{"name": "harness", "path": "harness", "serves_properties": sorted(props), "kind_free_text": "Go test binary (rapid property tests, exhaustive sweeps, reference Hessian codec, worker-process fuzzing) driven by ./check"}],
 "checks": checks,
 "notes": "./check <ID> quick|thorough [--replay file]; exit 0 held / 1 VIOLATION line / 2 inconclusive. Open known findings are in known_findings.json; the repairs made to /repo are listed there as fixed entries.",
 "not_applicable": [],
}
json.dump(m, open(os.path.join(here, "MANIFEST.json"), "w"), indent=1)
print("wrote MANIFEST.json with", len(checks), "checks")
